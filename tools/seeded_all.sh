#!/bin/sh
# run the owning quick check against every seeded change; print one line each
# (seeded changes whose meta.json says they are caught by another property's check are run against that one too)
cd /verif
for d in seeded/*/; do
  id=$(basename $d); prop=${id%%-*}
  extra=""
  case $id in C20-r5) extra="C14 C16";; C16-r6) extra="C12";; esac
  out=$(tools/mutant_run.sh /verif/$d/patch.diff $prop $extra 2>&1)
  echo "$id: $(echo "$out" | grep -E '^== ' | tr '\n' ' ') $(echo "$out" | grep -E ' at step ' | head -1 | cut -c1-140)"
done
