#!/bin/sh
# run the owning quick check against every seeded change and every single-defect patch; print one line each
cd /verif
for d in seeded/*/; do
  id=$(basename $d); prop=${id%%-*}
  out=$(tools/mutant_run.sh /verif/$d/patch.diff $prop 2>&1)
  echo "$id: $(echo "$out" | grep -E '^== ' | tr '\n' ' ') $(echo "$out" | grep -E ' at step ' | head -1 | cut -c1-140)"
done
