#!/bin/bash
# par_mutants.sh <slots> <list-file>   -- evaluate many seeded changes in parallel without touching /repo.
# list-file lines:  <label> <patch.diff> <Cnn> [<Cnn>...]
# Each slot gets its own worktree of /repo (patched) and its own copy of the harness whose path dependency points
# at that worktree, so the committed checks (which are bound to /repo) are not involved. Results: one line per (label, check).
SLOTS=$1; LIST=$2
mkdir -p /tmp/par
run_slot() {
  k=$1
  W=/tmp/par/$k
  rm -rf $W/verif; mkdir -p $W/verif
  if [ ! -d $W/repo ]; then git -C /repo worktree add -q --detach $W/repo HEAD; cp /repo/Cargo.lock $W/repo/; fi
  rsync -a --exclude target /verif/harness $W/verif/
  cp /verif/known_findings.txt $W/verif/; cp -r /verif/regressions $W/verif/ 2>/dev/null
  sed -i "s#path = \"/repo\"#path = \"$W/repo\"#" $W/verif/harness/Cargo.toml
  # share compiled dependencies between runs of this slot
  mkdir -p $W/target; ln -sfn $W/target $W/verif/harness/target
  awk -v k=$k -v n=$SLOTS 'NR % n == k % n' $LIST | while read label patch props; do
    git -C $W/repo checkout -q -- . ; git -C $W/repo checkout -q --detach $(git -C /repo rev-parse HEAD) 2>/dev/null
    if ! git -C $W/repo apply $patch 2>/dev/null; then echo "$label: PATCH DOES NOT APPLY"; continue; fi
    ( cd $W/verif/harness && cargo build --release >/dev/null 2>&1 ) || { echo "$label: BUILD FAILED"; continue; }
    for p in $props; do
      out=$(cd $W/verif/harness && VERIF_DIR=$W/verif ./target/release/mtv check $p --tier quick 2>&1); rc=$?
      echo "$label $p rc=$rc :: $(echo "$out" | grep -E ' at step ' | head -1 | cut -c1-170)"
    done
  done
}
for k in $(seq 1 $SLOTS); do run_slot $k & done
wait
