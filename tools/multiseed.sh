#!/bin/sh
# run every quick check under several PRNG seeds on the unchanged tree; every line must say rc=0
cd /verif
for seed in ${SEEDS:-2 3 4 5 6}; do
  for p in C01 C02 C03 C04 C05 C06 C07 C08 C09 C10 C11 C12 C13 C14 C15 C16 C17 C18 C19 C20; do
    out=$(VERIF_SEED=$seed ./check $p quick 2>&1); rc=$?
    echo "seed=$seed $p rc=$rc $(echo "$out" | grep -E ' at step |VIOLATION|harness|inconclusive' | head -2 | cut -c1-200)"
  done
done
