#!/usr/bin/env python3-vt
# validate MANIFEST.json and all evidence files against the schemas
import json, jsonschema, glob, sys
ok=True
try:
    jsonschema.validate(json.load(open('/verif/MANIFEST.json')), json.load(open('/root/.vp/MANIFEST.schema.json')))
    print('MANIFEST ok')
except Exception as e:
    ok=False; print('MANIFEST INVALID', str(e)[:300])
sch=json.load(open('/root/.vp/EVIDENCE.schema.json'))
for f in sorted(glob.glob('/verif/evidence/*.json')):
    try:
        jsonschema.validate(json.load(open(f)), sch)
    except Exception as e:
        ok=False; print(f, 'INVALID', str(e)[:300])
print('evidence files:', len(glob.glob('/verif/evidence/*.json')), 'all valid' if ok else 'PROBLEMS')
sys.exit(0 if ok else 1)
