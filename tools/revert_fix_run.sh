#!/bin/sh
# For every "fixed:" entry of known_findings.txt: re-introduce that defect alone (reverse-apply the fix commit in
# /repo's working tree), run the quick check of the property it is recorded for, undo. Expect rc=1 everywhere.
cd /verif
grep '^fixed:' known_findings.txt | while read _ prop commit rest; do
  p=${prop#property=}
  [ -n "$ONLY" ] && [ "$ONLY" != "$p" ] && continue
  git -C /repo show $commit -- src > /tmp/onefix.diff
  if ! git -C /repo apply -R /tmp/onefix.diff 2>/dev/null; then echo "$p $commit: cannot reverse-apply alone (later fixes touch the same lines)"; continue; fi
  out=$(./check $p quick 2>&1); rc=$?
  git -C /repo checkout -- .
  echo "$p $commit rc=$rc :: $(echo "$out" | grep -E ' at step ' | head -1 | cut -c1-200)"
done
