#!/bin/sh
# validate_seeded.sh <dir-with-patch.diff-and-demo> : in a scratch worktree of /repo HEAD check that
#  (1) the patch applies, (2) the 91 unit tests pass with it, (3) the demo fails with it, (4) the demo passes without it
D="$1"; ID=$(basename "$D")
WT=/tmp/wt-validate
if [ ! -d $WT ]; then git -C /repo worktree add -q --detach $WT HEAD && cp /repo/Cargo.lock $WT/; fi
cd $WT && git checkout -q --detach $(git -C /repo rev-parse HEAD) 2>/dev/null; git checkout -q -- . ; rm -rf tests; mkdir tests
DEMO=$(ls $D/demo*.rs | head -1); cp $DEMO tests/
T=$(basename $DEMO .rs)
r4=$(cargo test --offline --test $T 2>&1 | grep -E "^test result" | tail -1)
if ! git apply --check $D/patch.diff 2>/dev/null; then echo "$ID: PATCH DOES NOT APPLY"; exit 1; fi
git apply $D/patch.diff
r2=$(cargo test --offline --lib 2>&1 | grep -E "^test result" | tail -1)
r3=$(cargo test --offline --test $T 2>&1 | grep -E "^test result" | tail -1)
git checkout -q -- . ; rm -rf tests
echo "$ID: unit[$r2] demo-with-patch[$r3] demo-without[$r4]"
