#!/bin/sh
# mutant_run.sh <patch.diff> <Cnn> [<Cnn>...] : apply a seeded change to /repo, run the given quick checks, undo it
P="$1"; shift
cd /repo && [ -z "$(git status --porcelain -- src Cargo.toml)" ] || { echo "/repo not clean"; exit 2; }
git -C /repo apply "$P" || { echo "patch does not apply"; exit 2; }
for c in "$@"; do
  out=$(/verif/check $c ${TIER:-quick} 2>&1); rc=$?
  echo "== $c rc=$rc"; echo "$out" | grep -E "VIOLATION|at step|minimal case|harness|KNOWN" | cut -c1-400 | head -6
done
git -C /repo checkout -- . 
