#![no_main]
// Coverage-guided search over histories: the fuzz input is the choice-source byte string of
// the same structured generator the proptest runs use; every stepwise oracle is active.
use libfuzzer_sys::fuzz_target;

fuzz_target!(|data: &[u8]| {
    mtv::fuzz::fz_ops(data);
});
