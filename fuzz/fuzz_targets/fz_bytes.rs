#![no_main]
// Coverage-guided search over raw byte streams: C01 (returns), C02 (chunking), C09 (invariant),
// C10 (display), C11 (decoding) oracles inside the target.
use libfuzzer_sys::fuzz_target;

fuzz_target!(|data: &[u8]| {
    mtv::fuzz::fz_bytes(data);
});
