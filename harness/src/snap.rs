//! `Snap`: the abstract observable state of a `Screen`, read from its public fields.
//!
//! Dense grid for `y < lines, x < columns`; an absent row/cell is reported as the blank
//! default (reverse = DECSCNM).  Storage outside the grid is deliberately *not* part of a
//! snapshot: it must never be observable (checked black-box by the stepwise comparison and
//! by the reveal probe).

use std::collections::BTreeSet;

use memterm::charset::{IBMPC_MAP, LAT1_MAP, VAX42_MAP, VT100_MAP};
use memterm::screen::{CharOpts, Charset, Screen};
use unicode_normalization::UnicodeNormalization;

pub const DECSCNM: u32 = 5 << 5;
pub const DECOM: u32 = 6 << 5;
pub const DECAWM: u32 = 7 << 5;
pub const DECCOLM: u32 = 3 << 5;
pub const DECTCEM: u32 = 25 << 5;
pub const IRM: u32 = 4;
pub const LNM: u32 = 20;

pub const BOLD: u8 = 1;
pub const ITALICS: u8 = 2;
pub const UNDERSCORE: u8 = 4;
pub const STRIKE: u8 = 8;
pub const REVERSE: u8 = 16;
pub const BLINK: u8 = 32;

/// Colour of a cell, interned: the 17 documented names and `rrggbb` strings are encoded in the
/// number itself; anything else (only a defective implementation produces it) goes through a
/// per-process side table.  Equality and hashing are by value of the original string.
#[derive(Clone, Copy, PartialEq, Eq, Hash)]
pub struct Col(u32);

const COL_NAMES: [&str; 17] = [
    "default", "black", "red", "green", "brown", "blue", "magenta", "cyan", "white", "brightblack",
    "brightred", "brightgreen", "brightbrown", "brightblue", "brightmagenta", "brightcyan", "brightwhite",
];

thread_local! {
    static ODD_COLOURS: std::cell::RefCell<Vec<String>> = std::cell::RefCell::new(Vec::new());
}

impl Col {
    pub const DEFAULT: Col = Col(0);
    pub fn of(s: &str) -> Col {
        if let Some(i) = COL_NAMES.iter().position(|n| *n == s) {
            return Col(i as u32);
        }
        if s.len() == 6 && s.bytes().all(|b| b.is_ascii_digit() || (b'a'..=b'f').contains(&b)) {
            return Col(0x0100_0000 + u32::from_str_radix(s, 16).unwrap());
        }
        ODD_COLOURS.with(|t| {
            let mut t = t.borrow_mut();
            let i = match t.iter().position(|x| x == s) {
                Some(i) => i,
                None => {
                    t.push(s.to_string());
                    t.len() - 1
                }
            };
            Col(0x0200_0000 + i as u32)
        })
    }
    pub fn name(&self) -> String {
        if self.0 < 17 {
            COL_NAMES[self.0 as usize].to_string()
        } else if self.0 < 0x0200_0000 {
            format!("{:06x}", self.0 - 0x0100_0000)
        } else {
            ODD_COLOURS.with(|t| t.borrow()[(self.0 - 0x0200_0000) as usize].clone())
        }
    }
    /// a documented colour name or a hexadecimal colour string
    pub fn is_valid(&self) -> bool {
        self.0 < 0x0200_0000
    }
}

impl From<&str> for Col {
    fn from(s: &str) -> Col {
        Col::of(s)
    }
}
impl From<String> for Col {
    fn from(s: String) -> Col {
        Col::of(&s)
    }
}
impl std::fmt::Debug for Col {
    fn fmt(&self, f: &mut std::fmt::Formatter<'_>) -> std::fmt::Result {
        write!(f, "{:?}", self.name())
    }
}
impl std::fmt::Display for Col {
    fn fmt(&self, f: &mut std::fmt::Formatter<'_>) -> std::fmt::Result {
        write!(f, "{}", self.name())
    }
}

/// Cell text with a small-string representation (a cell almost always holds one character).
#[derive(Clone, PartialEq, Eq, Hash)]
pub enum Txt {
    Inline(u8, [u8; 14]),
    Heap(Box<str>),
}

impl Txt {
    pub fn as_str(&self) -> &str {
        match self {
            Txt::Inline(n, b) => unsafe { std::str::from_utf8_unchecked(&b[..*n as usize]) },
            Txt::Heap(s) => s,
        }
    }
}
impl From<&str> for Txt {
    fn from(s: &str) -> Txt {
        if s.len() <= 14 {
            let mut b = [0u8; 14];
            b[..s.len()].copy_from_slice(s.as_bytes());
            Txt::Inline(s.len() as u8, b)
        } else {
            Txt::Heap(s.into())
        }
    }
}
impl From<String> for Txt {
    fn from(s: String) -> Txt {
        Txt::from(s.as_str())
    }
}
impl std::ops::Deref for Txt {
    type Target = str;
    fn deref(&self) -> &str {
        self.as_str()
    }
}
impl std::fmt::Debug for Txt {
    fn fmt(&self, f: &mut std::fmt::Formatter<'_>) -> std::fmt::Result {
        write!(f, "{:?}", self.as_str())
    }
}
impl PartialEq<&str> for Txt {
    fn eq(&self, o: &&str) -> bool {
        self.as_str() == *o
    }
}

/// Canonical cell text for comparison: a cell holding a single character is compared exactly
/// (the character drawn is the character stored); a base with combining marks is compared
/// under NFC, because appending a mark is allowed to renormalise the cell.
pub fn canonical(s: &str) -> Txt {
    if s.is_ascii() || s.chars().nth(1).is_none() {
        s.into()
    } else {
        s.nfc().collect::<String>().into()
    }
}

#[derive(Clone, PartialEq, Eq, Hash, Debug)]
pub struct Cell {
    /// cell text, NFC-normalised
    pub data: Txt,
    pub fg: Col,
    pub bg: Col,
    pub flags: u8,
}

impl Cell {
    pub fn blank(reverse: bool) -> Cell {
        Cell { data: " ".into(), fg: Col::DEFAULT, bg: Col::DEFAULT, flags: if reverse { REVERSE } else { 0 } }
    }
    pub fn of(c: &CharOpts) -> Cell {
        let mut flags = 0;
        if c.bold {
            flags |= BOLD;
        }
        if c.italics {
            flags |= ITALICS;
        }
        if c.underscore {
            flags |= UNDERSCORE;
        }
        if c.strikethrough {
            flags |= STRIKE;
        }
        if c.reverse {
            flags |= REVERSE;
        }
        if c.blink {
            flags |= BLINK;
        }
        let data: Txt = canonical(&c.data);
        Cell { data, fg: Col::of(&c.fg), bg: Col::of(&c.bg), flags }
    }
    pub fn with_data(&self, data: &str) -> Cell {
        Cell { data: canonical(data), fg: self.fg, bg: self.bg, flags: self.flags }
    }
    pub fn short(&self) -> String {
        let mut s = format!("{:?}", self.data);
        if self.fg != Col::DEFAULT || self.bg != Col::DEFAULT || self.flags != 0 {
            s.push_str(&format!("[{}/{}/{:02x}]", self.fg, self.bg, self.flags));
        }
        s
    }
}

#[derive(Clone, Copy, PartialEq, Eq, Hash, Debug)]
pub enum Tbl {
    Lat1,
    Vt100,
    Ibmpc,
    Vax42,
    Other(u64),
}

impl Tbl {
    pub fn of(t: &[char; 256]) -> Tbl {
        if *t == LAT1_MAP {
            Tbl::Lat1
        } else if *t == VT100_MAP {
            Tbl::Vt100
        } else if *t == IBMPC_MAP {
            Tbl::Ibmpc
        } else if *t == VAX42_MAP {
            Tbl::Vax42
        } else {
            let mut h = 0xcbf29ce484222325u64;
            for c in t.iter() {
                h = (h ^ (*c as u64)).wrapping_mul(0x100000001b3);
            }
            Tbl::Other(h)
        }
    }
    pub fn from_code(code: &str) -> Option<Tbl> {
        match code {
            "B" => Some(Tbl::Lat1),
            "0" => Some(Tbl::Vt100),
            "U" => Some(Tbl::Ibmpc),
            "V" => Some(Tbl::Vax42),
            _ => None,
        }
    }
}

#[derive(Clone, PartialEq, Eq, Hash, Debug)]
pub struct Save {
    pub cx: u32,
    pub cy: u32,
    pub attr: Cell,
    pub hidden: bool,
    pub g1_active: bool,
    pub g0: Tbl,
    pub g1: Tbl,
    pub origin: bool,
    pub wrap: bool,
}

#[derive(Clone, PartialEq, Eq, Hash, Debug)]
pub struct Snap {
    pub cols: u32,
    pub lines: u32,
    pub cells: Vec<Vec<Cell>>,
    pub cx: u32,
    pub cy: u32,
    pub attr: Cell,
    pub hidden: bool,
    pub modes: BTreeSet<u32>,
    pub tabs: BTreeSet<u32>,
    pub dirty: BTreeSet<u32>,
    pub margins: Option<(u32, u32)>,
    pub title: String,
    pub icon: String,
    pub g1_active: bool,
    pub g0: Tbl,
    pub g1: Tbl,
    pub saves: Vec<Save>,
    pub saved_columns: Option<u32>,
}

impl Snap {
    pub fn of(s: &Screen) -> Snap {
        let reverse = s.mode.contains(&DECSCNM);
        let blank = Cell::blank(reverse);
        let mut cells = Vec::with_capacity(s.lines as usize);
        for y in 0..s.lines {
            let mut row = Vec::with_capacity(s.columns as usize);
            match s.buffer.get(&y) {
                None => {
                    for _ in 0..s.columns {
                        row.push(blank.clone());
                    }
                }
                Some(line) => {
                    for x in 0..s.columns {
                        match line.get(&x) {
                            Some(c) => row.push(Cell::of(c)),
                            None => row.push(blank.clone()),
                        }
                    }
                }
            }
            cells.push(row);
        }
        Snap {
            cols: s.columns,
            lines: s.lines,
            cells,
            cx: s.cursor.x,
            cy: s.cursor.y,
            attr: Cell::of(&s.cursor.attr),
            hidden: s.cursor.hidden,
            modes: s.mode.iter().cloned().collect(),
            tabs: s.tabstops.iter().cloned().collect(),
            dirty: s.dirty.iter().cloned().collect(),
            margins: s.margins.as_ref().map(|m| (m.top, m.bottom)),
            title: s.title.clone(),
            icon: s.icon_name.clone(),
            g1_active: s.charset == Charset::G1,
            g0: Tbl::of(&s.g0_charset),
            g1: Tbl::of(&s.g1_charset),
            saves: s
                .savepoints
                .iter()
                .map(|p| Save {
                    cx: p.cursor.x,
                    cy: p.cursor.y,
                    attr: Cell::of(&p.cursor.attr),
                    hidden: p.cursor.hidden,
                    g1_active: p.charset == Charset::G1,
                    g0: Tbl::of(&p.g0_charset),
                    g1: Tbl::of(&p.g1_charset),
                    origin: p.origin,
                    wrap: p.wrap,
                })
                .collect(),
            saved_columns: s.saved_columns,
        }
    }

    pub fn blank(&self) -> Cell {
        Cell::blank(self.modes.contains(&DECSCNM))
    }

    pub fn has(&self, mode: u32) -> bool {
        self.modes.contains(&mode)
    }

    pub fn row_text(&self, y: usize) -> String {
        self.cells[y].iter().map(|c| c.data.as_str()).collect()
    }

    /// The rendering `display()` must produce, recomputed from the cell grid with the rule of
    /// the statement: concatenate the cell texts, skipping the cell that follows a
    /// double-width character.
    pub fn render(&self) -> Vec<String> {
        use unicode_width::UnicodeWidthChar;
        let mut out = Vec::new();
        for row in &self.cells {
            let mut s = String::new();
            let mut skip = false;
            for c in row {
                if skip {
                    skip = false;
                    continue;
                }
                skip = c.data.chars().next().and_then(|ch| ch.width()).map_or(false, |w| w == 2);
                s.push_str(&c.data);
            }
            out.push(s);
        }
        out
    }

    /// First difference between two snapshots, as text (None when equal).  `skip` lists
    /// component names to leave out ("dirty", "saves", "tabs", "cursor").
    pub fn diff(&self, other: &Snap, skip: &[&str]) -> Option<String> {
        let sk = |n: &str| skip.contains(&n);
        if self.cols != other.cols || self.lines != other.lines {
            return Some(format!(
                "size {}x{} vs {}x{}",
                self.cols, self.lines, other.cols, other.lines
            ));
        }
        for y in 0..self.lines as usize {
            for x in 0..self.cols as usize {
                if self.cells[y][x] != other.cells[y][x] {
                    return Some(format!(
                        "cell (x={},y={}): {} vs {} | row: {:?} vs {:?}",
                        x,
                        y,
                        self.cells[y][x].short(),
                        other.cells[y][x].short(),
                        self.row_text(y),
                        other.row_text(y)
                    ));
                }
            }
        }
        if !sk("cursor") && (self.cx != other.cx || self.cy != other.cy) {
            return Some(format!(
                "cursor (x={},y={}) vs (x={},y={})",
                self.cx, self.cy, other.cx, other.cy
            ));
        }
        if !sk("attr") && self.attr != other.attr {
            return Some(format!("rendition {} vs {}", self.attr.short(), other.attr.short()));
        }
        if !sk("hidden") && self.hidden != other.hidden {
            return Some(format!("cursor.hidden {} vs {}", self.hidden, other.hidden));
        }
        if !sk("modes") && self.modes != other.modes {
            return Some(format!("modes {:?} vs {:?}", self.modes, other.modes));
        }
        if !sk("tabs") && self.tabs != other.tabs {
            return Some(format!("tabstops {:?} vs {:?}", self.tabs, other.tabs));
        }
        if !sk("dirty") && self.dirty != other.dirty {
            return Some(format!("dirty {:?} vs {:?}", self.dirty, other.dirty));
        }
        if !sk("margins") && self.margins != other.margins {
            return Some(format!("margins {:?} vs {:?}", self.margins, other.margins));
        }
        if !sk("title") && self.title != other.title {
            return Some(format!("title {:?} vs {:?}", self.title, other.title));
        }
        if !sk("title") && self.icon != other.icon {
            return Some(format!("icon_name {:?} vs {:?}", self.icon, other.icon));
        }
        if !sk("charset") && (self.g1_active != other.g1_active || self.g0 != other.g0 || self.g1 != other.g1) {
            return Some(format!(
                "charset (g1_active={},g0={:?},g1={:?}) vs (g1_active={},g0={:?},g1={:?})",
                self.g1_active, self.g0, self.g1, other.g1_active, other.g0, other.g1
            ));
        }
        if !sk("saves") && self.saves != other.saves {
            return Some(format!("savepoints {:?} vs {:?}", self.saves, other.saves));
        }
        if sk("saves") && !sk("savedepth") && self.saves.len() != other.saves.len() {
            // depth is still compared unless explicitly skipped
            return Some(format!(
                "savepoint depth {} vs {}",
                self.saves.len(),
                other.saves.len()
            ));
        }
        if !sk("savedcols") && self.saved_columns != other.saved_columns {
            return Some(format!(
                "saved_columns {:?} vs {:?}",
                self.saved_columns, other.saved_columns
            ));
        }
        None
    }
}
