//! Thorough tier: bounded libFuzzer campaigns (cargo-fuzz targets of /verif/fuzz) whose inputs
//! drive the same structured generators and oracles; failures come back as replay files.

use std::process::{Command, Stdio};
use std::time::Instant;

use serde_json::json;

use crate::ops::Case;

pub struct FuzzPlan {
    pub target: &'static str,
    pub runs_per_job: u64,
    pub jobs: usize,
}

pub fn plan_for(id: &str) -> Vec<FuzzPlan> {
    let ops = |runs| FuzzPlan { target: "fz_ops", runs_per_job: runs, jobs: 16 };
    let bytes = |runs| FuzzPlan { target: "fz_bytes", runs_per_job: runs, jobs: 16 };
    match id {
        "C01" => vec![bytes(25_000), ops(25_000)],
        "C02" | "C11" => vec![bytes(30_000)],
        "C03" | "C09" | "C10" => vec![bytes(8_000), ops(20_000)],
        _ => vec![ops(30_000)],
    }
}

fn seed_corpus(dir: &str, target: &str, seed: u64) {
    let _ = std::fs::create_dir_all(dir);
    let _ = std::fs::write(format!("{}/empty", dir), b"");
    let mut x = seed.wrapping_mul(0x9E3779B97F4A7C15) | 1;
    for k in 0..48 {
        let mut v = Vec::new();
        for _ in 0..(40 + k * 6) {
            x ^= x << 13;
            x ^= x >> 7;
            x ^= x << 17;
            v.push((x >> 32) as u8);
        }
        let _ = std::fs::write(format!("{}/rnd{}", dir, k), &v);
    }
    if target == "fz_bytes" {
        for (n, name) in ["cat-gpl3", "find-etc", "htop", "ls", "mc", "top", "vi"].iter().enumerate() {
            if let Ok(d) = std::fs::read(format!("/repo/assets/captured/{}.input", name)) {
                for (j, off) in [0usize, d.len() / 3, 2 * d.len() / 3].iter().enumerate() {
                    let end = (*off + 500).min(d.len());
                    let mut v = vec![6u8 + 32 * (j as u8 & 1), (n * 3 + j) as u8];
                    v.extend_from_slice(&d[*off..end]);
                    let _ = std::fs::write(format!("{}/cap-{}-{}", dir, name, j), &v);
                }
            }
        }
        for (k, s) in [&b"\x04\x02\x1b[2J\x1b[1;1Habc\r\n\x1b[31mred\x1b[0m"[..], b"\x15\x01\x1b(0lqk\x0e\x0f\xe9", b"\x01\x03\x1b]0;title\x07\x1b]2;t\x1b\\x", b"\x02\x02\xe4\xb8\xad\xf0\x9f\x98\x80\xcc\x81\xff\xc0\x80"].iter().enumerate() {
            let _ = std::fs::write(format!("{}/hand{}", dir, k), s);
        }
    }
}

pub struct FuzzOutcome {
    pub report: serde_json::Value,
    /// replay files of failures for the property under check
    pub failures: Vec<(String, Case, crate::engine::Failure)>,
    pub executions: u64,
    pub inconclusive: Vec<String>,
}

pub fn campaign(id: &str, seed: u64, verif_dir: &str) -> FuzzOutcome {
    let mut reports = Vec::new();
    let mut failures = Vec::new();
    let mut executions = 0u64;
    let mut inconclusive = Vec::new();
    let bin_dir = format!("{}/fuzz/target/x86_64-unknown-linux-gnu/release", verif_dir);
    for plan in plan_for(id) {
        let bin = format!("{}/{}", bin_dir, plan.target);
        if !std::path::Path::new(&bin).exists() {
            inconclusive.push(format!("fuzz target {} not built", plan.target));
            continue;
        }
        let t0 = Instant::now();
        let work = format!("{}/fuzz/target/work-{}-{}-{}", verif_dir, id, plan.target, std::process::id());
        let out = format!("{}/replays/fuzz-{}-{}", verif_dir, id, std::process::id());
        let _ = std::fs::remove_dir_all(&work);
        let _ = std::fs::create_dir_all(&work);
        let _ = std::fs::create_dir_all(&out);
        let mut children = Vec::new();
        for j in 0..plan.jobs {
            let corpus = format!("{}/corpus{}", work, j);
            seed_corpus(&corpus, plan.target, seed.wrapping_add(j as u64 * 7919));
            let art = format!("{}/art{}/", work, j);
            let _ = std::fs::create_dir_all(&art);
            let log = std::fs::File::create(format!("{}/log{}.txt", work, j)).unwrap();
            let child = Command::new(&bin)
                .arg(format!("-runs={}", plan.runs_per_job))
                .arg(format!("-seed={}", (seed.wrapping_mul(31).wrapping_add(j as u64 + 1)) % 4_000_000_000 + 1))
                .arg("-max_len=700")
                .arg("-len_control=0")
                .arg("-timeout=60")
                .arg("-rss_limit_mb=6000")
                .arg("-print_final_stats=1")
                .arg(format!("-artifact_prefix={}", art))
                .arg(&corpus)
                .env("MTV_FUZZ_TARGET", id)
                .env("MTV_FUZZ_OUT", &out)
                .current_dir(&work)
                .stdin(Stdio::null())
                .stdout(Stdio::null())
                .stderr(Stdio::from(log))
                .spawn();
            match child {
                Ok(c) => children.push((j, c)),
                Err(e) => inconclusive.push(format!("cannot start {}: {}", plan.target, e)),
            }
        }
        let mut execs = 0u64;
        let mut abnormal = 0;
        for (j, mut c) in children {
            let status = c.wait();
            let log = std::fs::read_to_string(format!("{}/log{}.txt", work, j)).unwrap_or_default();
            for line in log.lines() {
                if let Some(v) = line.strip_prefix("stat::number_of_executed_units:") {
                    execs += v.trim().parse::<u64>().unwrap_or(0);
                }
            }
            let ok = status.map(|s| s.success()).unwrap_or(false);
            if !ok {
                abnormal += 1;
                // executions up to the crash are in the last progress line
                if !log.contains("stat::number_of_executed_units") {
                    if let Some(n) = log.lines().rev().find_map(|l| l.strip_prefix('#').and_then(|r| r.split_whitespace().next()).and_then(|n| n.parse::<u64>().ok())) {
                        execs += n;
                    }
                }
                if !log.contains("MTV-FUZZ-FAILURE") {
                    // a crash, timeout or OOM that did not come from an oracle
                    let kind = if log.contains("ERROR: libFuzzer: timeout") {
                        "timeout"
                    } else if log.contains("out-of-memory") {
                        "oom"
                    } else {
                        "crash"
                    };
                    // keep the artifact's decoded case for C01; otherwise it is only reported
                    let art_dir = format!("{}/art{}", work, j);
                    let mut kept = false;
                    if id == "C01" {
                        if let Ok(rd) = std::fs::read_dir(&art_dir) {
                            for e in rd.flatten() {
                                if let Ok(data) = std::fs::read(e.path()) {
                                    let case = if plan.target == "fz_ops" { crate::fuzz::ops_case(&data).0 } else { crate::fuzz::bytes_case(&data) };
                                    let iso = crate::runner::isolated(std::sync::Arc::new(|c: &Case| crate::relational::run_c01(c)));
                                    let res = iso(&case);
                                    if let Some(f) = res.fails.into_iter().find(|f| f.property == "C01") {
                                        let path = crate::runner::write_replay(&out, "C01", if plan.target == "fz_ops" { "gen-api" } else { "gen-stream" }, &case, &f, seed);
                                        failures.push((path, case, f));
                                        kept = true;
                                    }
                                }
                            }
                        }
                    }
                    if !kept {
                        inconclusive.push(format!("{} job {}: libFuzzer {} without an oracle failure (inconclusive)", plan.target, j, kind));
                    }
                }
            }
        }
        // oracle failures written by the targets
        if let Ok(rd) = std::fs::read_dir(&out) {
            let mut files: Vec<_> = rd.flatten().map(|e| e.path()).collect();
            files.sort();
            for p in files {
                if let Ok(text) = std::fs::read_to_string(&p) {
                    if let Ok(v) = serde_json::from_str::<serde_json::Value>(&text) {
                        if v["property"].as_str() == Some(id) && v["sub"].as_str().map_or(false, |s| s.starts_with("fz_")) {
                            if let (Ok(case), Some(detail)) = (serde_json::from_value::<Case>(v["case"].clone()), v["detail"].as_str()) {
                                let f = crate::engine::Failure {
                                    property: id.to_string(),
                                    kind: v["kind"].as_str().unwrap_or("").to_string(),
                                    step: v["failing_step"].as_u64().unwrap_or(0) as usize,
                                    op: v["failing_op"].as_str().unwrap_or("").to_string(),
                                    detail: detail.to_string(),
                                    sig: v["signature"].as_str().unwrap_or("").to_string(),
                                };
                                failures.push((p.display().to_string(), case, f));
                            }
                        }
                    }
                }
            }
        }
        executions += execs;
        reports.push(json!({
            "target": plan.target,
            "jobs": plan.jobs,
            "runs_per_job": plan.runs_per_job,
            "executions": execs,
            "jobs_ended_abnormally": abnormal,
            "wall_s": t0.elapsed().as_secs_f64(),
            "engine": "libFuzzer (cargo-fuzz, sanitizer none, overflow-checks + debug-assertions on), fresh corpus seeded with generated inputs and captured-session windows",
        }));
        let _ = std::fs::remove_dir_all(&work);
        if failures.is_empty() {
            let _ = std::fs::remove_dir_all(&out);
        }
    }
    FuzzOutcome { report: json!(reports), failures, executions, inconclusive }
}
