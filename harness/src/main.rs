use mtv::engine::install_panic_hook;
use mtv::ops::Case;
use mtv::props;
use mtv::runner::{redirect_stdout, run_check, say, Acc, Known, Tier};
use std::sync::Arc;

fn usage() -> ! {
    eprintln!("usage: mtv check <Cnn> [--tier quick|thorough] [--sub name] [--threads n]\n       mtv replay <file>\n       mtv selftest");
    std::process::exit(2)
}

fn main() {
    let args: Vec<String> = std::env::args().collect();
    if args.len() < 2 {
        usage();
    }
    let verif_dir = std::env::var("VERIF_DIR").unwrap_or_else(|_| "/verif".to_string());
    let seed: u64 = std::env::var("VERIF_SEED").ok().and_then(|s| s.trim().parse::<i64>().ok()).map(|v| v as u64).unwrap_or(1);
    redirect_stdout();
    install_panic_hook();
    match args[1].as_str() {
        "check" => {
            if args.len() < 3 {
                usage();
            }
            let id = args[2].as_str();
            let mut tier = match std::env::var("VERIF_TIER").as_deref() {
                Ok("thorough") => Tier::Thorough,
                _ => Tier::Quick,
            };
            let mut sub: Option<String> = None;
            let mut threads = std::thread::available_parallelism().map(|n| n.get()).unwrap_or(8).min(16);
            // MTV_THREADS: number of worker processes (generated sub-checks split the same number of cases over them)
            if let Some(n) = std::env::var("MTV_THREADS").ok().and_then(|s| s.parse::<usize>().ok()) {
                threads = n.clamp(1, 64);
            }
            let mut i = 3;
            while i < args.len() {
                match args[i].as_str() {
                    "--tier" => {
                        i += 1;
                        tier = if args.get(i).map(|s| s.as_str()) == Some("thorough") { Tier::Thorough } else { Tier::Quick };
                    }
                    "--sub" => {
                        i += 1;
                        sub = args.get(i).cloned();
                    }
                    "--threads" => {
                        i += 1;
                        threads = args.get(i).and_then(|s| s.parse().ok()).unwrap_or(threads);
                    }
                    "quick" => tier = Tier::Quick,
                    "thorough" => tier = Tier::Thorough,
                    _ => {}
                }
                i += 1;
            }
            let st = mtv::selftest::run();
            if !st.is_empty() {
                for l in st {
                    say(&format!("harness self-test failed: {}", l));
                }
                std::process::exit(2);
            }
            let spec = match props::spec(id) {
                Some(s) => s,
                None => {
                    eprintln!("unknown property {}", id);
                    std::process::exit(2)
                }
            };
            let code = run_check(&spec, tier, seed, threads, &verif_dir, sub.as_deref());
            std::process::exit(code);
        }
        "replay" => {
            if args.len() < 3 {
                usage();
            }
            let text = std::fs::read_to_string(&args[2]).unwrap_or_else(|e| {
                eprintln!("cannot read {}: {}", args[2], e);
                std::process::exit(2)
            });
            let v: serde_json::Value = serde_json::from_str(&text).unwrap_or_else(|e| {
                eprintln!("bad replay file: {}", e);
                std::process::exit(2)
            });
            let id = v["property"].as_str().unwrap_or("");
            let subname = v["sub"].as_str().unwrap_or("");
            let case: Case = serde_json::from_value(v["case"].clone()).unwrap_or_else(|e| {
                eprintln!("bad case: {}", e);
                std::process::exit(2)
            });
            let spec = props::spec(id).unwrap_or_else(|| {
                eprintln!("unknown property {}", id);
                std::process::exit(2)
            });
            let sub = spec.subs.iter().find(|s| s.name == subname).unwrap_or(&spec.subs[0]);
            let known = Arc::new(Known::load(&format!("{}/known_findings.txt", verif_dir)));
            let res = (sub.replay)(&case);
            let mut acc = Acc::new(id, known);
            say(&format!("replaying {}: {}", args[2], case.pretty()));
            match acc.absorb(&case, res) {
                Some(f) => {
                    say(&format!("{} at step {} ({}): {}", f.kind, f.step, f.op, f.detail));
                    say(&format!("VIOLATION property={} replay={}", id, args[2]));
                    std::process::exit(1);
                }
                None => {
                    for (k, n) in &acc.known_hits {
                        say(&format!("KNOWN-FINDING: {} (hit {} times)", k, n));
                    }
                    say(&format!("{}: replay passes on the current tree", id));
                    std::process::exit(0);
                }
            }
        }
        "list" => {
            // the property table: sub-checks and budgets (pasted into DESIGN.md)
            say("| property | sub-check | kind | quick | thorough |");
            say("|---|---|---|---|---|");
            for id in props::ALL {
                let spec = props::spec(id).unwrap();
                for sub in &spec.subs {
                    match &sub.kind {
                        mtv::runner::SubKind::Gen { cases, max_bytes, .. } => say(&format!(
                            "| {} | {} | generated (proptest, <= {} choice bytes) | {} cases | {} cases |",
                            id, sub.name, max_bytes, cases.0, cases.1
                        )),
                        mtv::runner::SubKind::Exh { shards, .. } => say(&format!(
                            "| {} | {} | exhaustive enumeration | {} shards | {} shards |",
                            id, sub.name, shards.0, shards.1
                        )),
                    }
                }
                let plans: Vec<String> = mtv::fuzzdrv::plan_for(id).iter().map(|p| format!("{} {}x{} runs", p.target, p.jobs, p.runs_per_job)).collect();
                say(&format!("| {} | libFuzzer | coverage-guided | - | {} |", id, plans.join(", ")));
            }
            std::process::exit(0);
        }
        "selftest" => {
            let st = mtv::selftest::run();
            for l in &st {
                say(l);
            }
            say(&format!("selftest: {} problems", st.len()));
            std::process::exit(if st.is_empty() { 0 } else { 2 });
        }
        _ => usage(),
    }
}
