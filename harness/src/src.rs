//! Choice source: every generator is a pure function of a byte string.
//!
//! The byte string comes from proptest (`vec(any::<u8>())`, shrunk by proptest), from
//! libFuzzer (the fuzz input) or from a replay file.  Running out of bytes yields the
//! first / simplest alternative, so every byte string decodes to a valid case
//! (construction, never rejection).  Index mapping is monotone (`b * n >> 8`), so that
//! numerically smaller bytes mean simpler choices and proptest's byte shrinking shrinks
//! the decoded case.

pub struct Src<'a> {
    data: &'a [u8],
    pos: usize,
}

impl<'a> Src<'a> {
    pub fn new(data: &'a [u8]) -> Self {
        Src { data, pos: 0 }
    }

    pub fn exhausted(&self) -> bool {
        self.pos >= self.data.len()
    }

    pub fn remaining(&self) -> usize {
        self.data.len().saturating_sub(self.pos)
    }

    pub fn byte(&mut self) -> u8 {
        if self.pos < self.data.len() {
            let b = self.data[self.pos];
            self.pos += 1;
            b
        } else {
            0
        }
    }

    pub fn u16(&mut self) -> u16 {
        let hi = self.byte() as u16;
        let lo = self.byte() as u16;
        (hi << 8) | lo
    }

    /// uniform-ish in 0..n (n >= 1), monotone in the consumed byte(s)
    pub fn below(&mut self, n: u32) -> u32 {
        if n <= 1 {
            return 0;
        }
        if n <= 256 {
            (self.byte() as u32 * n) >> 8
        } else {
            ((self.u16() as u64 * n as u64) >> 16) as u32
        }
    }

    /// inclusive range
    pub fn range(&mut self, lo: u32, hi: u32) -> u32 {
        if hi <= lo {
            return lo;
        }
        lo + self.below(hi - lo + 1)
    }

    /// true with probability num/256 (false when out of bytes)
    pub fn chance(&mut self, num: u32) -> bool {
        (self.byte() as u32) >= 256 - num.min(256)
    }

    pub fn pick<'b, T>(&mut self, xs: &'b [T]) -> &'b T {
        let i = self.below(xs.len() as u32) as usize;
        &xs[i]
    }

    /// index according to weights (first alternative when out of bytes)
    pub fn weighted(&mut self, weights: &[u32]) -> usize {
        let total: u32 = weights.iter().sum();
        if total == 0 {
            return 0;
        }
        let mut r = self.below(total);
        for (i, w) in weights.iter().enumerate() {
            if r < *w {
                return i;
            }
            r -= *w;
        }
        weights.len() - 1
    }
}
