//! Reference semantics: `apply(&mut Snap, &Op)` on the dense abstract state, written from the
//! property statements (C04-C08, C12-C16, C18-C20).  `PINNED` marks behaviour the statements
//! leave open and pyte / the documented implementation defines.
//!
//! The model never sees the sparse representation, rows or cells outside the grid, or the
//! implementation's code paths: if the real screen behaves differently on absent vs
//! materialised cells, or consults hidden storage, the post-states differ.

use unicode_normalization::UnicodeNormalization;

use crate::ops::{Op, N};
use crate::snap::*;
use crate::tables::{class_of, palette256, translate, Class};

/// What the model says about the post-state.
#[derive(Clone, Debug, Default)]
pub struct Notes {
    /// the model cannot predict this step (e.g. a user-defined charset): do not compare
    pub unknown: bool,
    /// the cursor is only constrained by a predicate (inside the bounds), not a value
    pub cursor_free: bool,
    /// tab stops are not compared for this step
    pub tabs_free: bool,
    /// a scroll of a region happened during the step (C17: every row must be dirty)
    pub scrolled: bool,
    /// a screen-wide change happened (reset, DECALN, DECSCNM switch, size change)
    pub screen_wide: bool,
    /// the step drew at least one double-width / combining / unprintable char, wrapped, ...
    pub tags: Vec<&'static str>,
}

impl Notes {
    fn tag(&mut self, t: &'static str) {
        if !self.tags.contains(&t) {
            self.tags.push(t);
        }
    }
}

fn n1(n: &N) -> u32 {
    match n {
        Some(v) if *v > 0 => *v,
        _ => 1,
    }
}

fn region(s: &Snap) -> (u32, u32) {
    s.margins.unwrap_or((0, s.lines - 1))
}

fn blank_row(s: &Snap) -> Vec<Cell> {
    vec![s.blank(); s.cols as usize]
}

fn erase_cell(s: &Snap) -> Cell {
    s.attr.with_data(" ")
}

// ----- cursor movement (C05) ---------------------------------------------------------------

fn cuu(s: &mut Snap, n: &N) {
    // max(y - n, top margin); screen edge when no region is set
    let top = s.margins.map_or(0, |m| m.0);
    s.cy = s.cy.saturating_sub(n1(n)).max(top);
}

fn cud(s: &mut Snap, n: &N) {
    let bottom = s.margins.map_or(s.lines - 1, |m| m.1);
    s.cy = (s.cy + n1(n)).min(bottom);
}

fn cuf(s: &mut Snap, n: &N) {
    s.cx = (s.cx + n1(n)).min(s.cols - 1);
}

fn cub(s: &mut Snap, n: &N) {
    // PINNED: from the pending-wrap position the motion starts at the last column
    let x0 = s.cx.min(s.cols - 1);
    s.cx = x0.saturating_sub(n1(n));
}

fn cup(s: &mut Snap, line: &N, col: &N) {
    let col = n1(col) - 1;
    let mut line = n1(line) - 1;
    if let Some((top, bottom)) = s.margins {
        if s.has(DECOM) {
            line += top;
            if line < top || line > bottom {
                return; // outside the region: ignored
            }
        }
    }
    s.cx = col.min(s.cols - 1);
    s.cy = line.min(s.lines - 1);
}

fn vpa(s: &mut Snap, line: &N) {
    let mut y = n1(line) - 1;
    if s.has(DECOM) {
        if let Some((top, bottom)) = s.margins {
            y = (y + top).clamp(top, bottom);
        }
    }
    s.cy = y.min(s.lines - 1);
}

// ----- scrolling (C06) -----------------------------------------------------------------------

fn scroll_up(s: &mut Snap, top: u32, bottom: u32) {
    let b = blank_row(s);
    s.cells.remove(top as usize);
    s.cells.insert(bottom as usize, b);
}

fn scroll_down(s: &mut Snap, top: u32, bottom: u32) {
    let b = blank_row(s);
    s.cells.remove(bottom as usize);
    s.cells.insert(top as usize, b);
}

fn index(s: &mut Snap, notes: &mut Notes) {
    let (top, bottom) = region(s);
    if s.cy == bottom {
        scroll_up(s, top, bottom);
        notes.scrolled = true;
    } else {
        cud(s, &None);
    }
}

fn reverse_index(s: &mut Snap, notes: &mut Notes) {
    let (top, bottom) = region(s);
    if s.cy == top {
        scroll_down(s, top, bottom);
        notes.scrolled = true;
    } else {
        cuu(s, &None);
    }
}

fn linefeed(s: &mut Snap, notes: &mut Notes) {
    index(s, notes);
    if s.has(LNM) {
        s.cx = 0;
    }
}

fn insert_lines(s: &mut Snap, n: &N) {
    let (top, bottom) = region(s);
    if s.cy < top || s.cy > bottom {
        return;
    }
    let k = n1(n).min(bottom - s.cy + 1);
    for _ in 0..k {
        let b = blank_row(s);
        s.cells.remove(bottom as usize);
        s.cells.insert(s.cy as usize, b);
    }
    s.cx = 0;
}

fn delete_lines(s: &mut Snap, n: &N) {
    let (top, bottom) = region(s);
    if s.cy < top || s.cy > bottom {
        return;
    }
    let k = n1(n).min(bottom - s.cy + 1);
    for _ in 0..k {
        let b = blank_row(s);
        s.cells.remove(s.cy as usize);
        s.cells.insert(bottom as usize, b);
    }
    s.cx = 0;
}

fn set_margins(s: &mut Snap, top: &N, bottom: &N) {
    if top.unwrap_or(0) == 0 && bottom.is_none() {
        s.margins = None;
        return;
    }
    let cur = region(s);
    let last = s.lines as i64 - 1;
    // PINNED: an absent value keeps the current margin (only reachable through the API)
    let t = match top {
        None => cur.0 as i64,
        Some(v) => (*v as i64 - 1).min(last).max(0),
    };
    let b = match bottom {
        None => cur.1 as i64,
        Some(v) => (*v as i64 - 1).min(last).max(0),
    };
    if b - t >= 1 {
        s.margins = Some((t as u32, b as u32));
        cup(s, &None, &None);
    }
}

// ----- character editing (C13) and erasing (C07) ------------------------------------------------

fn insert_chars(s: &mut Snap, n: &N) {
    if s.cx >= s.cols {
        return;
    }
    let k = n1(n).min(s.cols - s.cx);
    let b = s.blank();
    let row = &mut s.cells[s.cy as usize];
    for _ in 0..k {
        row.insert(s.cx as usize, b.clone());
    }
    row.truncate(s.cols as usize);
}

fn delete_chars(s: &mut Snap, n: &N) {
    if s.cx >= s.cols {
        return;
    }
    let k = n1(n).min(s.cols - s.cx);
    let b = s.blank();
    let row = &mut s.cells[s.cy as usize];
    for _ in 0..k {
        row.remove(s.cx as usize);
        row.push(b.clone());
    }
}

fn erase_chars(s: &mut Snap, n: &N) {
    if s.cx >= s.cols {
        return;
    }
    let k = n1(n).min(s.cols - s.cx);
    let e = erase_cell(s);
    for x in s.cx..s.cx + k {
        s.cells[s.cy as usize][x as usize] = e.clone();
    }
}

fn erase_in_line(s: &mut Snap, how: &N) {
    let e = erase_cell(s);
    let (from, to) = match how.unwrap_or(0) {
        0 => (s.cx, s.cols),
        1 => (0, s.cx.min(s.cols - 1) + 1),
        2 => (0, s.cols),
        _ => return,
    };
    for x in from..to.max(from) {
        s.cells[s.cy as usize][x as usize] = e.clone();
    }
}

fn erase_in_display(s: &mut Snap, how: &N) {
    let e = erase_cell(s);
    let h = how.unwrap_or(0);
    let rows = match h {
        0 => s.cy + 1..s.lines,
        1 => 0..s.cy,
        2 | 3 => 0..s.lines,
        _ => return,
    };
    for y in rows {
        for x in 0..s.cols {
            s.cells[y as usize][x as usize] = e.clone();
        }
    }
    if h == 0 || h == 1 {
        erase_in_line(s, &Some(h));
    }
}

// ----- SGR (C08) -------------------------------------------------------------------------------

const NAMES: [&str; 8] = ["black", "red", "green", "brown", "blue", "magenta", "cyan", "white"];

pub fn sgr_fold(attr: &Cell, reverse_default: bool, list: &[u32]) -> Cell {
    let mut a = attr.clone();
    let reset = |a: &mut Cell| {
        a.fg = "default".into();
        a.bg = "default".into();
        a.flags = if reverse_default { REVERSE } else { 0 };
        a.data = " ".into();
    };
    if list.is_empty() {
        reset(&mut a);
        return a;
    }
    let mut i = 0;
    while i < list.len() {
        let c = list[i];
        i += 1;
        match c {
            0 => reset(&mut a),
            1 => a.flags |= BOLD,
            3 => a.flags |= ITALICS,
            4 => a.flags |= UNDERSCORE,
            5 => a.flags |= BLINK,
            7 => a.flags |= REVERSE,
            9 => a.flags |= STRIKE,
            22 => a.flags &= !BOLD,
            23 => a.flags &= !ITALICS,
            24 => a.flags &= !UNDERSCORE,
            25 => a.flags &= !BLINK,
            27 => a.flags &= !REVERSE,
            29 => a.flags &= !STRIKE,
            30..=37 => a.fg = NAMES[(c - 30) as usize].into(),
            39 => a.fg = "default".into(),
            40..=47 => a.bg = NAMES[(c - 40) as usize].into(),
            49 => a.bg = "default".into(),
            90..=97 => a.fg = format!("bright{}", NAMES[(c - 90) as usize]).into(),
            100..=107 => a.bg = format!("bright{}", NAMES[(c - 100) as usize]).into(),
            38 | 48 => {
                // the selector is consumed; 5 consumes one more; 2 consumes three more
                if i < list.len() {
                    let sel = list[i];
                    i += 1;
                    let mut colour = None;
                    if sel == 5 {
                        if i < list.len() {
                            colour = palette256(list[i]);
                            i += 1;
                        }
                    } else if sel == 2 {
                        let rest = &list[i..];
                        let take = rest.len().min(3);
                        if take == 3 && rest[..3].iter().all(|v| *v <= 255) {
                            colour =
                                Some(format!("{:02x}{:02x}{:02x}", rest[0], rest[1], rest[2]));
                        }
                        i += take;
                    }
                    if let Some(col) = colour {
                        if c == 38 {
                            a.fg = col.into();
                        } else {
                            a.bg = col.into();
                        }
                    }
                }
            }
            _ => {}
        }
    }
    a
}

// ----- drawing (C04, C20) ------------------------------------------------------------------------

fn draw(s: &mut Snap, text: &str, notes: &mut Notes) {
    let tbl = if s.g1_active { s.g1 } else { s.g0 };
    if tbl != Tbl::Lat1 {
        notes.tag("charset");
    }
    for raw in text.chars() {
        let ch = match translate(tbl, raw) {
            Some(c) => c,
            None => {
                notes.unknown = true;
                return;
            }
        };
        let class = class_of(ch);
        if class == Class::Odd {
            notes.unknown = true;
            return;
        }
        let w: u32 = match class {
            Class::Narrow => 1,
            Class::Wide => 2,
            _ => 0,
        };
        if s.cx == s.cols && w > 0 {
            if s.has(DECAWM) {
                notes.tag("wrap");
                s.cx = 0;
                linefeed(s, notes);
            } else {
                notes.tag("nowrap-edge");
                s.cx = s.cx.saturating_sub(w);
            }
        }
        if s.has(IRM) && w > 0 {
            notes.tag("irm");
            insert_chars(s, &Some(w));
        }
        let (x, y) = (s.cx as usize, s.cy as usize);
        match class {
            Class::Narrow => {
                s.cells[y][x] = s.attr.with_data(&ch.to_string());
            }
            Class::Wide => {
                notes.tag("wide");
                s.cells[y][x] = s.attr.with_data(&ch.to_string());
                // PINNED: a wide character in the last column gets no placeholder
                if x + 1 < s.cols as usize {
                    s.cells[y][x + 1] = s.attr.with_data("");
                }
            }
            Class::Combining => {
                notes.tag("combining");
                let target = if x > 0 {
                    Some((y, x - 1))
                } else if y > 0 {
                    notes.tag("combining-prev-row");
                    Some((y - 1, s.cols as usize - 1))
                } else {
                    None
                };
                if let Some((ty, tx)) = target {
                    let mut d = s.cells[ty][tx].data.to_string();
                    d.push(ch);
                    s.cells[ty][tx].data = canonical(&d);
                }
            }
            Class::ZeroOther | Class::Unprintable | Class::Odd => {
                notes.tag("noeffect-char");
            }
        }
        if w > 0 {
            s.cx = (s.cx + w).min(s.cols);
        }
    }
}

// ----- modes (C12) ---------------------------------------------------------------------------------

fn encode(modes: &[u32], private: bool) -> Vec<u32> {
    modes.iter().map(|m| if private { m << 5 } else { *m }).collect()
}

fn set_mode(s: &mut Snap, modes: &[u32], private: bool, notes: &mut Notes) {
    let list = encode(modes, private);
    let had_scnm = s.has(DECSCNM);
    for m in &list {
        s.modes.insert(*m);
    }
    if list.contains(&DECCOLM) {
        s.saved_columns = Some(s.cols);
        resize(s, &None, &Some(132), notes);
        notes.cursor_free = false;
        erase_in_display(s, &Some(2));
        cup(s, &None, &None);
    }
    if list.contains(&DECOM) {
        cup(s, &None, &None);
    }
    if list.contains(&DECSCNM) {
        for row in s.cells.iter_mut() {
            for c in row.iter_mut() {
                c.flags |= REVERSE;
            }
        }
        s.attr.flags |= REVERSE;
        if !had_scnm {
            notes.screen_wide = true;
        }
    }
    if list.contains(&DECTCEM) {
        s.hidden = false;
    }
}

fn reset_mode(s: &mut Snap, modes: &[u32], private: bool, notes: &mut Notes) {
    let list = encode(modes, private);
    let had_scnm = s.has(DECSCNM);
    for m in &list {
        s.modes.remove(m);
    }
    if list.contains(&DECCOLM) {
        if s.cols == 132 {
            if let Some(c) = s.saved_columns {
                resize(s, &None, &Some(c), notes);
                notes.cursor_free = false;
                s.saved_columns = None;
            }
        }
        erase_in_display(s, &Some(2));
        cup(s, &None, &None);
    }
    if list.contains(&DECOM) {
        cup(s, &None, &None);
    }
    if list.contains(&DECSCNM) {
        for row in s.cells.iter_mut() {
            for c in row.iter_mut() {
                c.flags &= !REVERSE;
            }
        }
        s.attr.flags &= !REVERSE;
        if had_scnm {
            notes.screen_wide = true;
        }
    }
    if list.contains(&DECTCEM) {
        s.hidden = true;
    }
}

// ----- DECSC / DECRC (C14) -------------------------------------------------------------------------

fn save_cursor(s: &mut Snap) {
    s.saves.push(Save {
        cx: s.cx,
        cy: s.cy,
        attr: s.attr.clone(),
        hidden: s.hidden,
        g1_active: s.g1_active,
        g0: s.g0,
        g1: s.g1,
        origin: s.has(DECOM),
        wrap: s.has(DECAWM),
    });
}

fn restore_cursor(s: &mut Snap) {
    match s.saves.pop() {
        None => {
            s.modes.remove(&DECOM);
            cup(s, &None, &None);
        }
        Some(p) => {
            s.g0 = p.g0;
            s.g1 = p.g1;
            s.g1_active = p.g1_active;
            if p.origin {
                s.modes.insert(DECOM);
            }
            if p.wrap {
                s.modes.insert(DECAWM);
            }
            s.attr = p.attr;
            s.hidden = p.hidden;
            s.cx = p.cx.min(s.cols - 1);
            let (top, bottom) = region(s);
            s.cy = p.cy.clamp(top, bottom);
        }
    }
}

// ----- RIS (C15), resize (C16), tabs (C18) ---------------------------------------------------------

fn reset(s: &mut Snap, notes: &mut Notes) {
    s.modes.clear();
    s.modes.insert(DECAWM);
    s.modes.insert(DECTCEM);
    let b = Cell::blank(false);
    for row in s.cells.iter_mut() {
        for c in row.iter_mut() {
            *c = b.clone();
        }
    }
    s.margins = None;
    s.title.clear();
    s.icon.clear();
    s.g1_active = false;
    s.g0 = Tbl::Lat1;
    s.g1 = Tbl::Vt100;
    s.tabs = (1..).map(|k| k * 8).take_while(|c| *c < s.cols).collect();
    s.cx = 0;
    s.cy = 0;
    s.attr = Cell::blank(false);
    s.hidden = false;
    s.saved_columns = None;
    notes.screen_wide = true;
}

fn resize(s: &mut Snap, lines: &N, cols: &N, notes: &mut Notes) {
    let nl = lines.unwrap_or(s.lines);
    let nc = cols.unwrap_or(s.cols);
    if nl == s.lines && nc == s.cols {
        return; // complete no-op
    }
    notes.screen_wide = true;
    notes.cursor_free = true;
    // tab stops change only through HTS / TBC / RIS, so a resize leaves the set alone
    let b = s.blank();
    if nl < s.lines {
        s.cells.drain(0..(s.lines - nl) as usize); // surplus rows leave at the top
    }
    for row in s.cells.iter_mut() {
        row.resize(nc as usize, b.clone());
    }
    while (s.cells.len() as u32) < nl {
        s.cells.push(vec![b.clone(); nc as usize]);
    }
    s.lines = nl;
    s.cols = nc;
    s.margins = None;
}

fn tab(s: &mut Snap) {
    let next = s.tabs.iter().find(|t| **t > s.cx).cloned();
    s.cx = next.unwrap_or(s.cols - 1).min(s.cols - 1);
}

// ----- entry point ------------------------------------------------------------------------------------

/// Apply one listener-level / API operation to the abstract state.
pub fn apply(s: &mut Snap, op: &Op) -> Notes {
    let mut notes = Notes::default();
    match op {
        Op::Draw(t) => draw(s, t, &mut notes),
        Op::Bell | Op::Da(..) | Op::Display => {}
        Op::Bs => cub(s, &None),
        Op::Tab => tab(s),
        Op::Lf => linefeed(s, &mut notes),
        Op::Cr => s.cx = 0,
        Op::So => s.g1_active = true,
        Op::Si => s.g1_active = false,
        Op::Ind => index(s, &mut notes),
        Op::Ri => reverse_index(s, &mut notes),
        Op::Hts => {
            s.tabs.insert(s.cx);
        }
        Op::Sc => save_cursor(s),
        Op::Rc => restore_cursor(s),
        Op::Ris => reset(s, &mut notes),
        Op::Aln => {
            for row in s.cells.iter_mut() {
                for c in row.iter_mut() {
                    c.data = "E".into();
                }
            }
            notes.screen_wide = true;
        }
        Op::DefCharset(code, mode) => {
            if let Some(t) = Tbl::from_code(code) {
                if mode == "(" {
                    s.g0 = t;
                } else if mode == ")" {
                    s.g1 = t;
                }
            }
        }
        Op::Ich(n) => insert_chars(s, n),
        Op::Cuu(n) => cuu(s, n),
        Op::Cud(n) => cud(s, n),
        Op::Cuf(n) => cuf(s, n),
        Op::Cub(n) => cub(s, n),
        Op::Cnl(n) => {
            cud(s, n);
            s.cx = 0;
        }
        Op::Cpl(n) => {
            cuu(s, n);
            s.cx = 0;
        }
        Op::Cha(n) => s.cx = (n1(n) - 1).min(s.cols - 1),
        Op::Cup(a, b) => cup(s, a, b),
        Op::Vpa(n) => vpa(s, n),
        Op::Ed(n, _) => erase_in_display(s, n),
        Op::El(n, _) => erase_in_line(s, n),
        Op::Il(n) => insert_lines(s, n),
        Op::Dl(n) => delete_lines(s, n),
        Op::Dch(n) => delete_chars(s, n),
        Op::Ech(n) => erase_chars(s, n),
        Op::Tbc(n) => match n.unwrap_or(0) {
            0 => {
                s.tabs.remove(&s.cx);
            }
            3 => s.tabs.clear(),
            _ => {}
        },
        Op::Sm(ms, p) => set_mode(s, ms, *p, &mut notes),
        Op::Rm(ms, p) => reset_mode(s, ms, *p, &mut notes),
        Op::Sgr(ms) => s.attr = sgr_fold(&s.attr, s.has(DECSCNM), ms),
        Op::Title(t) => s.title = t.clone(),
        Op::Icon(t) => s.icon = t.clone(),
        Op::Stbm(a, b) => set_margins(s, a, b),
        Op::Resize(l, c) => resize(s, l, c, &mut notes),
        Op::ClearDirty => s.dirty.clear(),
        Op::FeedStr(_) | Op::FeedBytes(_) | Op::SelCharset(_) | Op::SetUtf8(_) | Op::Fill { .. } => {
            notes.unknown = true;
        }
    }
    notes
}
