//! Execution engine: a real terminal (`Screen` behind a checking listener `Tee`, driven
//! directly or through `Parser` / `ByteParser`) with the oracles attached.

use std::cell::RefCell;
use std::collections::hash_map::DefaultHasher;
use std::collections::{BTreeMap, HashSet};
use std::hash::{Hash, Hasher};
use std::panic::{catch_unwind, AssertUnwindSafe};
use std::sync::{Arc, Mutex, MutexGuard};

use memterm::byte_parser::ByteParser;
use memterm::parser::Parser;
use memterm::parser_listener::ParserListener;
use memterm::screen::Screen;

use crate::model::{self, Notes};
use crate::ops::{apply_listener, pretty_op, Case, Op, N};
use crate::recog::{normalise, Recog, Utf8Ref};
use crate::snap::*;

// ------------------------------------------------------------------------------------------
// panic capture

thread_local! {
    static LAST_PANIC: RefCell<Option<String>> = RefCell::new(None);
}

pub fn install_panic_hook() {
    std::panic::set_hook(Box::new(|info| {
        let loc = info
            .location()
            .map(|l| {
                let f = l.file();
                let f = f.rsplit('/').next().unwrap_or(f);
                format!("{}:{}", f, l.line())
            })
            .unwrap_or_default();
        let msg = info
            .payload()
            .downcast_ref::<&str>()
            .map(|s| s.to_string())
            .or_else(|| info.payload().downcast_ref::<String>().cloned())
            .unwrap_or_else(|| "<non-string panic>".into());
        LAST_PANIC.with(|p| *p.borrow_mut() = Some(format!("{} @ {}", msg, loc)));
    }));
}

pub fn take_panic() -> String {
    LAST_PANIC.with(|p| p.borrow_mut().take()).unwrap_or_else(|| "<panic>".into())
}

pub fn hash_of<T: Hash>(t: &T) -> u64 {
    let mut h = DefaultHasher::new();
    t.hash(&mut h);
    h.finish()
}

// ------------------------------------------------------------------------------------------
// results

#[derive(Clone, Debug, serde::Serialize, serde::Deserialize)]
pub struct Failure {
    pub property: String,
    pub kind: String,
    pub step: usize,
    pub op: String,
    pub detail: String,
    /// stable signature used to match known findings
    pub sig: String,
}

#[derive(Clone, Debug, Default, serde::Serialize, serde::Deserialize)]
pub struct Stats {
    /// steps / comparisons actually evaluated
    pub evaluations: u64,
    /// hashes of distinct non-trivial (state, op) pairs or cases
    pub nontrivial: HashSet<u64>,
    pub classes: BTreeMap<String, u64>,
    pub samples: Vec<String>,
    pub foreign: BTreeMap<String, u64>,
    pub excluded: BTreeMap<String, u64>,
    pub cases: u64,
}

impl Stats {
    pub fn class(&mut self, name: &str) {
        *self.classes.entry(name.to_string()).or_insert(0) += 1;
    }
    pub fn exclude(&mut self, name: &str) {
        *self.excluded.entry(name.to_string()).or_insert(0) += 1;
    }
    pub fn sample(&mut self, s: impl FnOnce() -> String) {
        if self.samples.len() < 8 {
            let s = s();
            if !self.samples.contains(&s) {
                self.samples.push(s);
            }
        }
    }
    pub fn merge(&mut self, o: Stats) {
        self.evaluations += o.evaluations;
        self.cases += o.cases;
        self.nontrivial.extend(o.nontrivial);
        for (k, v) in o.classes {
            *self.classes.entry(k).or_insert(0) += v;
        }
        for (k, v) in o.foreign {
            *self.foreign.entry(k).or_insert(0) += v;
        }
        for (k, v) in o.excluded {
            *self.excluded.entry(k).or_insert(0) += v;
        }
        for s in o.samples {
            if self.samples.len() < 10 && !self.samples.contains(&s) {
                self.samples.push(s);
            }
        }
    }
}

// ------------------------------------------------------------------------------------------
// configuration of the stepwise checker

#[derive(Clone, Debug)]
pub struct Cfg {
    /// property whose violations are reported ("*" = every property)
    pub target: String,
    /// compare every step with the reference model
    pub model: bool,
    /// C09 invariants after every step
    pub inv: bool,
    /// C17: clear `dirty` before every step and check the covering rule afterwards
    pub dirty: bool,
    /// reveal probe (grow a fork by +2/+2, new area must be blank) after every step
    pub reveal: bool,
    /// catch panics inside the listener (stepwise mode) instead of letting them unwind
    pub catch: bool,
    /// C10: check display() output against the recomputed rendering and purity
    pub display: bool,
    /// C10: lock-step shadow run without the Display operations
    pub c10: bool,
    /// C15: shadow fresh screen after every RIS
    pub c15: bool,
    /// compare feeds end-to-end with reference recogniser + model
    pub e2e: bool,
    /// charge every end-to-end mismatch to the target property
    pub e2e_all: bool,
    /// owners whose step mismatches are re-attributed to the target property
    pub adopt: Vec<&'static str>,
}

impl Cfg {
    pub fn stepper(target: &str) -> Cfg {
        Cfg {
            target: target.to_string(),
            model: true,
            inv: true,
            dirty: false,
            reveal: false,
            catch: true,
            display: true,
            c10: false,
            c15: false,
            e2e: true,
            e2e_all: false,
            adopt: Vec::new(),
        }
    }
    pub fn wants(&self, prop: &str) -> bool {
        self.target == "*" || self.target == prop
    }
}

pub struct Checker {
    pub cfg: Cfg,
    last: Option<Snap>,
    pub fails: Vec<Failure>,
    pub stats: Stats,
    pub step_no: usize,
    /// index of the case operation being executed (reported as the failing step)
    pub op_index: usize,
    /// set while a restore_cursor event was seen (C15 shadow must stop)
    pub saw_rc: bool,
    pub saw_ris: bool,
}

impl Checker {
    pub fn new(cfg: Cfg) -> Checker {
        Checker {
            cfg,
            last: None,
            fails: Vec::new(),
            stats: Stats::default(),
            step_no: 0,
            op_index: 0,
            saw_rc: false,
            saw_ris: false,
        }
    }

    pub fn fail(&mut self, prop: &str, kind: &str, op: &Op, detail: String) {
        // dirty-row obligations stated by the target property itself (C12: DECSCNM marks all
        // rows; C16: resize marks all rows) are charged to it when its own operation misses them
        let own_dirty = prop == "C17" && op.owner() == self.cfg.target;
        let prop = if self.cfg.adopt.contains(&prop) || own_dirty { self.cfg.target.clone() } else { prop.to_string() };
        let prop = prop.as_str();
        if self.cfg.wants(prop) {
            self.fails.push(Failure {
                property: prop.to_string(),
                kind: kind.to_string(),
                step: self.op_index,
                op: pretty_op(op),
                detail,
                sig: format!("{}:{}:{}", prop, kind, op.kind()),
            });
        } else {
            *self.stats.foreign.entry(format!("{}:{}", prop, kind)).or_insert(0) += 1;
        }
    }
}

/// C09: the well-formedness invariant over the public state.
pub fn invariant(s: &Screen, snap: &Snap) -> Option<String> {
    if s.lines < 1 || s.columns < 1 {
        return Some(format!("size {}x{}", s.columns, s.lines));
    }
    if !(s.cursor.y < s.lines) {
        return Some(format!("cursor.y={} with lines={}", s.cursor.y, s.lines));
    }
    if !(s.cursor.x <= s.columns) {
        return Some(format!("cursor.x={} with columns={}", s.cursor.x, s.columns));
    }
    if let Some(m) = s.margins.as_ref() {
        if !(m.top < m.bottom && m.bottom <= s.lines - 1) {
            return Some(format!("margins ({},{}) with lines={}", m.top, m.bottom, s.lines));
        }
    }
    if let Some(d) = s.dirty.iter().find(|d| **d >= s.lines) {
        return Some(format!("dirty contains {} with lines={}", d, s.lines));
    }
    for (y, row) in snap.cells.iter().enumerate() {
        for (x, c) in row.iter().enumerate() {
            if !c.fg.is_valid() || !c.bg.is_valid() {
                return Some(format!("cell (x={},y={}) colour fg={:?} bg={:?}", x, y, c.fg, c.bg));
            }
        }
    }
    if !snap.attr.fg.is_valid() || !snap.attr.bg.is_valid() {
        return Some(format!("cursor colour fg={:?} bg={:?}", snap.attr.fg, snap.attr.bg));
    }
    None
}

/// Reveal probe: grow a fork of the screen; everything that appears must be blank.
pub fn reveal_probe(s: &Screen) -> Option<String> {
    let mut f = s.clone();
    let (l, c) = (f.lines, f.columns);
    let r = catch_unwind(AssertUnwindSafe(|| {
        f.resize(Some(l + 2), Some(c + 2));
    }));
    if r.is_err() {
        return Some(format!("resize(+2,+2) panicked: {}", take_panic()));
    }
    let snap = Snap::of(&f);
    if snap.lines != l + 2 || snap.cols != c + 2 {
        return Some(format!("grown fork has size {}x{}", snap.cols, snap.lines));
    }
    let blank = snap.blank();
    for y in 0..snap.lines {
        for x in 0..snap.cols {
            if (y >= l || x >= c) && snap.cells[y as usize][x as usize] != blank {
                return Some(format!(
                    "after growing {}x{} by +2/+2 the new cell (x={},y={}) holds {} instead of a blank",
                    c,
                    l,
                    x,
                    y,
                    snap.cells[y as usize][x as usize].short()
                ));
            }
        }
    }
    None
}

// ------------------------------------------------------------------------------------------
// Tee: the listener the parsers drive; forwards to the screen and checks each step

pub struct Tee {
    pub screen: Screen,
    pub log: Vec<Op>,
    pub log_on: bool,
    pub chk: Option<Checker>,
}

impl Tee {
    pub fn new(cols: u32, lines: u32, chk: Option<Checker>) -> Tee {
        Tee { screen: Screen::new(cols, lines), log: Vec::new(), log_on: false, chk }
    }

    /// mutate the screen outside the checked path (setup)
    pub fn raw<R>(&mut self, f: impl FnOnce(&mut Screen) -> R) -> R {
        if let Some(c) = self.chk.as_mut() {
            c.last = None;
        }
        f(&mut self.screen)
    }

    pub fn snap(&mut self) -> Snap {
        if let Some(c) = self.chk.as_mut() {
            if let Some(s) = &c.last {
                return s.clone();
            }
            let s = Snap::of(&self.screen);
            c.last = Some(s.clone());
            return s;
        }
        Snap::of(&self.screen)
    }

    pub fn resize(&mut self, l: N, c: N) {
        self.step(Op::Resize(l, c), |s| s.resize(l, c));
    }

    pub fn clear_dirty(&mut self) {
        self.step(Op::ClearDirty, |s| s.dirty.clear());
    }

    fn step<R: 'static>(&mut self, op: Op, f: impl FnOnce(&mut Screen) -> R) -> Option<R> {
        if self.log_on {
            self.log.push(op.clone());
        }
        let chk = match self.chk.as_mut() {
            None => return Some(f(&mut self.screen)),
            Some(c) => c,
        };
        if matches!(op, Op::Rc) {
            chk.saw_rc = true;
        }
        if matches!(op, Op::Ris) {
            chk.saw_ris = true;
        }
        chk.step_no += 1;
        let cfg = chk.cfg.clone();
        if cfg.dirty && !matches!(op, Op::ClearDirty) {
            self.screen.dirty.clear();
            if let Some(l) = chk.last.as_mut() {
                l.dirty.clear();
            }
        }
        let pre = match chk.last.take() {
            Some(s) => s,
            None => Snap::of(&self.screen),
        };
        let pre_ok = invariant(&self.screen, &pre).is_none();

        // ---- the real operation ----
        let result = if cfg.catch {
            match catch_unwind(AssertUnwindSafe(|| f(&mut self.screen))) {
                Ok(r) => Some(r),
                Err(_) => {
                    let p = take_panic();
                    let detail = format!("panicked: {}", p);
                    chk.fail("C01", "panic", &op, detail.clone());
                    chk.fail(op.owner(), "panic", &op, detail);
                    chk.last = None;
                    return None;
                }
            }
        } else {
            Some(f(&mut self.screen))
        };
        chk.stats.evaluations += 1;
        chk.stats.class(op.kind());

        let post = Snap::of(&self.screen);

        // ---- C09 ----
        if cfg.inv {
            if let Some(d) = invariant(&self.screen, &post) {
                chk.fail("C09", "invariant", &op, d);
            }
        }

        // ---- C10: display is faithful and pure ----
        if cfg.display {
            if let (Op::Display, Some(r)) = (&op, result.as_ref()) {
                // R is Vec<String> for display; recover it through Any-free comparison
                let out: &dyn std::any::Any = r;
                if let Some(lines) = out.downcast_ref::<Vec<String>>() {
                    use unicode_normalization::UnicodeNormalization;
                    let want: Vec<String> = pre.render().iter().map(|l| l.nfc().collect()).collect();
                    // cell text is compared under NFC everywhere
                    let lines: Vec<String> = lines.iter().map(|l| l.nfc().collect()).collect();
                    let lines = &lines;
                    if *lines != want {
                        let y = (0..want.len().max(lines.len()))
                            .find(|i| lines.get(*i) != want.get(*i))
                            .unwrap_or(0);
                        chk.fail(
                            "C10",
                            "display-unfaithful",
                            &op,
                            format!(
                                "display()[{}] = {:?}, rendering recomputed from the grid = {:?} ({} vs {} rows)",
                                y,
                                lines.get(y),
                                want.get(y),
                                lines.len(),
                                want.len()
                            ),
                        );
                    }
                    if lines.len() as u32 != pre.lines {
                        chk.fail(
                            "C09",
                            "display-len",
                            &op,
                            format!("display() returned {} rows, lines={}", lines.len(), pre.lines),
                        );
                    }
                }
                if let Some(d) = pre.diff(&post, &[]) {
                    chk.fail("C10", "display-impure", &op, format!("display() changed the state: {}", d));
                }
            }
        }

        // ---- reference model ----
        let mut notes = Notes::default();
        if cfg.model && pre_ok && !matches!(op, Op::Display) {
            let mut exp = pre.clone();
            let m = catch_unwind(AssertUnwindSafe(|| model::apply(&mut exp, &op)));
            match m {
                Err(_) => {
                    let _ = take_panic();
                    chk.stats.exclude("model-panic");
                }
                Ok(n) => {
                    notes = n;
                    if notes.unknown {
                        chk.stats.exclude("model-unknown");
                    } else {
                        let mut skip: Vec<&str> = vec!["dirty"];
                        if notes.cursor_free {
                            skip.push("cursor");
                        }
                        if notes.tabs_free {
                            skip.push("tabs");
                        }
                        if let Some(d) = exp.diff(&post, &skip) {
                            // the operation's own property answers for the components its
                            // statement covers, the component's owner for the component
                            let mut skip2 = skip.clone();
                            skip2.extend_from_slice(uncovered(&op));
                            let own = exp.diff(&post, &skip2);
                            let co = component_owner(&d);
                            if let Some(d2) = &own {
                                chk.fail(op.owner(), "model-mismatch", &op, format!("expected vs actual: {}", d2));
                            } else if co.is_none() {
                                chk.fail(op.owner(), "model-mismatch", &op, format!("expected vs actual: {}", d));
                            }
                            if let Some(co) = co {
                                if co != op.owner() || own.is_none() {
                                    chk.fail(co, "model-mismatch", &op, format!("expected vs actual: {}", d));
                                }
                            }
                        }
                        // a same-size resize is a complete no-op, dirty included
                        if let Op::Resize(..) = op {
                            if !notes.screen_wide && pre.dirty != post.dirty {
                                chk.fail(
                                    "C16",
                                    "noop-resize-dirty",
                                    &op,
                                    format!("dirty {:?} -> {:?}", pre.dirty, post.dirty),
                                );
                            }
                        }
                        if nontrivial(&cfg.target, &op, &pre, &post, &notes) {
                            chk.stats.nontrivial.insert(hash_of(&(hash_of(&pre), &op)));
                            chk.stats.sample(|| {
                                format!(
                                    "{}x{} cursor=({},{}) margins={:?} modes={:?} row[y]={:?} :: {}",
                                    pre.cols,
                                    pre.lines,
                                    pre.cx,
                                    pre.cy,
                                    pre.margins,
                                    pre.modes,
                                    pre.cells.get(pre.cy as usize).map(|_| pre.row_text(pre.cy as usize)),
                                    pretty_op(&op)
                                )
                            });
                            for t in &notes.tags {
                                chk.stats.class(&format!("tag:{}", t));
                            }
                            if pre.margins.is_some() {
                                chk.stats.class("with-region");
                            }
                            if pre.cx == pre.cols {
                                chk.stats.class("at-pending-wrap");
                            }
                        }
                    }
                }
            }
        }

        // without the model (C01's exhaustive exploration: only "returns, and keeps working") the
        // non-trivial steps are still counted, by the same rule
        if !cfg.model && nontrivial(&cfg.target, &op, &pre, &post, &notes) {
            chk.stats.nontrivial.insert(hash_of(&(hash_of(&pre), &op)));
            chk.stats.sample(|| format!("{}x{} cursor=({},{}) :: {}", pre.cols, pre.lines, pre.cx, pre.cy, pretty_op(&op)));
        }

        // ---- C17 ----
        if cfg.dirty && !matches!(op, Op::ClearDirty) {
            let all: std::collections::BTreeSet<u32> = (0..post.lines).collect();
            if let Some(d) = post.dirty.iter().find(|d| **d >= post.lines) {
                chk.fail("C17", "dirty-stale", &op, format!("dirty contains {} with lines={}", d, post.lines));
            }
            let size_changed = pre.cols != post.cols || pre.lines != post.lines;
            let wide = size_changed
                || notes.scrolled
                || notes.screen_wide
                || matches!(op, Op::Ris | Op::Aln);
            if wide && cfg.model {
                if post.dirty != all {
                    chk.fail(
                        "C17",
                        "dirty-not-all",
                        &op,
                        format!("screen-wide change but dirty = {:?} (lines={})", post.dirty, post.lines),
                    );
                }
            }
            if !size_changed {
                for y in 0..post.lines as usize {
                    if pre.cells[y] != post.cells[y] && !post.dirty.contains(&(y as u32)) {
                        chk.fail(
                            "C17",
                            "dirty-missed",
                            &op,
                            format!(
                                "row {} changed ({:?} -> {:?}) but dirty = {:?}",
                                y,
                                pre.row_text(y),
                                post.row_text(y),
                                post.dirty
                            ),
                        );
                        break;
                    }
                }
            }
            if self::is_c17_nontrivial(&pre, &post) {
                chk.stats.nontrivial.insert(hash_of(&(hash_of(&pre), &op)));
            }
        }

        // ---- reveal probe ----
        if cfg.reveal && invariant(&self.screen, &post).is_none() {
            if let Some(d) = reveal_probe(&self.screen) {
                let owner = match op.owner() {
                    o @ ("C06" | "C07" | "C13" | "C16" | "C04") => o,
                    _ => "C16",
                };
                chk.fail(owner, "reveal", &op, d.clone());
                if owner != "C16" {
                    chk.fail("C16", "reveal", &op, d);
                }
            }
        }

        chk.last = Some(post);
        result
    }
}

fn is_c17_nontrivial(pre: &Snap, post: &Snap) -> bool {
    pre.cols != post.cols || pre.lines != post.lines || pre.cells != post.cells
}

fn arg_edge(n: &N) -> bool {
    matches!(n, None | Some(0))
}

/// The per-property rule for "this evaluated step is non-trivial".
pub fn nontrivial(target: &str, op: &Op, pre: &Snap, post: &Snap, notes: &Notes) -> bool {
    let changed = pre.cells != post.cells;
    match target {
        "C04" => matches!(op, Op::Draw(_)) && (!notes.tags.is_empty()),
        "C05" => {
            op.owner() == "C05"
                && (pre.margins.is_some()
                    || pre.has(DECOM)
                    || pre.cx == pre.cols
                    || post.cx == 0
                    || post.cx + 1 >= post.cols
                    || post.cy == 0
                    || post.cy + 1 == post.lines
                    || match op {
                        Op::Cuu(n) | Op::Cud(n) | Op::Cuf(n) | Op::Cub(n) | Op::Cnl(n)
                        | Op::Cpl(n) | Op::Cha(n) | Op::Vpa(n) => arg_edge(n),
                        Op::Cup(a, b) => arg_edge(a) || arg_edge(b),
                        _ => false,
                    })
        }
        "C06" => op.owner() == "C06" && (changed || matches!(op, Op::Stbm(..))),
        "C07" => op.owner() == "C07" && (changed || pre.cx == pre.cols),
        "C08" => {
            matches!(op, Op::Sgr(l) if pre.attr != post.attr || l.contains(&38) || l.contains(&48))
        }
        "C12" => op.owner() == "C12",
        "C13" => op.owner() == "C13" && (changed || pre.cx == pre.cols),
        "C14" => op.owner() == "C14",
        "C15" => matches!(op, Op::Ris),
        "C16" => matches!(op, Op::Resize(..)) && (pre.cols != post.cols || pre.lines != post.lines),
        "C18" => op.owner() == "C18",
        "C19" => op.owner() == "C19",
        "C20" => {
            matches!(op, Op::So | Op::Si | Op::DefCharset(..))
                || (matches!(op, Op::Draw(_)) && notes.tags.contains(&"charset"))
        }
        "C01" | "C09" | "C17" | "C10" | "*" => changed || pre.cx != post.cx || pre.cy != post.cy || pre.modes != post.modes,
        _ => false,
    }
}

macro_rules! fwd {
    ($self:ident, $op:expr, $s:ident => $call:expr) => {{
        $self.step($op, |$s| $call);
    }};
}

impl ParserListener for Tee {
    fn alignment_display(&mut self) {
        fwd!(self, Op::Aln, s => s.alignment_display())
    }
    fn define_charset(&mut self, code: &str, mode: &str) {
        fwd!(self, Op::DefCharset(code.into(), mode.into()), s => s.define_charset(code, mode))
    }
    fn reset(&mut self) {
        fwd!(self, Op::Ris, s => s.reset())
    }
    fn index(&mut self) {
        fwd!(self, Op::Ind, s => s.index())
    }
    fn linefeed(&mut self) {
        fwd!(self, Op::Lf, s => s.linefeed())
    }
    fn reverse_index(&mut self) {
        fwd!(self, Op::Ri, s => s.reverse_index())
    }
    fn set_tab_stop(&mut self) {
        fwd!(self, Op::Hts, s => s.set_tab_stop())
    }
    fn save_cursor(&mut self) {
        fwd!(self, Op::Sc, s => s.save_cursor())
    }
    fn restore_cursor(&mut self) {
        fwd!(self, Op::Rc, s => s.restore_cursor())
    }
    fn shift_out(&mut self) {
        fwd!(self, Op::So, s => s.shift_out())
    }
    fn shift_in(&mut self) {
        fwd!(self, Op::Si, s => s.shift_in())
    }
    fn bell(&mut self) {
        fwd!(self, Op::Bell, s => s.bell())
    }
    fn backspace(&mut self) {
        fwd!(self, Op::Bs, s => s.backspace())
    }
    fn tab(&mut self) {
        fwd!(self, Op::Tab, s => s.tab())
    }
    fn cariage_return(&mut self) {
        fwd!(self, Op::Cr, s => s.cariage_return())
    }
    fn draw(&mut self, input: &str) {
        fwd!(self, Op::Draw(input.into()), s => s.draw(input))
    }
    fn insert_characters(&mut self, count: Option<u32>) {
        fwd!(self, Op::Ich(count), s => s.insert_characters(count))
    }
    fn cursor_up(&mut self, count: Option<u32>) {
        fwd!(self, Op::Cuu(count), s => s.cursor_up(count))
    }
    fn cursor_down(&mut self, count: Option<u32>) {
        fwd!(self, Op::Cud(count), s => s.cursor_down(count))
    }
    fn cursor_forward(&mut self, count: Option<u32>) {
        fwd!(self, Op::Cuf(count), s => s.cursor_forward(count))
    }
    fn cursor_back(&mut self, count: Option<u32>) {
        fwd!(self, Op::Cub(count), s => s.cursor_back(count))
    }
    fn cursor_down1(&mut self, count: Option<u32>) {
        fwd!(self, Op::Cnl(count), s => s.cursor_down1(count))
    }
    fn cursor_up1(&mut self, count: Option<u32>) {
        fwd!(self, Op::Cpl(count), s => s.cursor_up1(count))
    }
    fn cursor_to_column(&mut self, character: Option<u32>) {
        fwd!(self, Op::Cha(character), s => s.cursor_to_column(character))
    }
    fn cursor_position(&mut self, line: Option<u32>, character: Option<u32>) {
        fwd!(self, Op::Cup(line, character), s => s.cursor_position(line, character))
    }
    fn erase_in_display(&mut self, how: Option<u32>, private: Option<bool>) {
        fwd!(self, Op::Ed(how, private), s => s.erase_in_display(how, private))
    }
    fn erase_in_line(&mut self, how: Option<u32>, private: Option<bool>) {
        fwd!(self, Op::El(how, private), s => s.erase_in_line(how, private))
    }
    fn insert_lines(&mut self, count: Option<u32>) {
        fwd!(self, Op::Il(count), s => s.insert_lines(count))
    }
    fn delete_lines(&mut self, count: Option<u32>) {
        fwd!(self, Op::Dl(count), s => s.delete_lines(count))
    }
    fn delete_characters(&mut self, count: Option<u32>) {
        fwd!(self, Op::Dch(count), s => s.delete_characters(count))
    }
    fn erase_characters(&mut self, count: Option<u32>) {
        fwd!(self, Op::Ech(count), s => s.erase_characters(count))
    }
    fn report_device_attributes(&mut self, mode: Option<u32>, private: Option<bool>) {
        fwd!(self, Op::Da(mode, private), s => s.report_device_attributes(mode, private))
    }
    fn cursor_to_line(&mut self, line: Option<u32>) {
        fwd!(self, Op::Vpa(line), s => s.cursor_to_line(line))
    }
    fn clear_tab_stop(&mut self, how: Option<u32>) {
        fwd!(self, Op::Tbc(how), s => s.clear_tab_stop(how))
    }
    fn set_mode(&mut self, modes: &[u32], is_private: bool) {
        fwd!(self, Op::Sm(modes.to_vec(), is_private), s => s.set_mode(modes, is_private))
    }
    fn reset_mode(&mut self, modes: &[u32], is_private: bool) {
        fwd!(self, Op::Rm(modes.to_vec(), is_private), s => s.reset_mode(modes, is_private))
    }
    fn select_graphic_rendition(&mut self, modes: &[u32]) {
        fwd!(self, Op::Sgr(modes.to_vec()), s => s.select_graphic_rendition(modes))
    }
    fn set_title(&mut self, title: &str) {
        fwd!(self, Op::Title(title.into()), s => s.set_title(title))
    }
    fn set_icon_name(&mut self, icon_name: &str) {
        fwd!(self, Op::Icon(icon_name.into()), s => s.set_icon_name(icon_name))
    }
    fn set_margins(&mut self, top: Option<u32>, bottom: Option<u32>) {
        fwd!(self, Op::Stbm(top, bottom), s => s.set_margins(top, bottom))
    }
    fn display(&mut self) -> Vec<String> {
        self.step(Op::Display, |s| s.display()).unwrap_or_default()
    }
}

// ------------------------------------------------------------------------------------------
// Term: a terminal under test (screen + lazily created parsers + reference recognisers)

pub struct Term {
    pub tee: Arc<Mutex<Tee>>,
    parser: Option<Parser<'static, Tee>>,
    bparser: Option<ByteParser<'static, Tee>>,
    /// reference recogniser state mirroring `parser`
    pub rp: Recog,
    /// reference recogniser + decoder state mirroring `bparser`
    pub rb: Recog,
    pub rutf: Utf8Ref,
    pub rb_started: bool,
}

pub fn lock(m: &Arc<Mutex<Tee>>) -> MutexGuard<'_, Tee> {
    m.lock().unwrap_or_else(|e| e.into_inner())
}

/// marker characters for Fill: distinct per cell on small screens, per row always
const MARKERS: &str = "ABCDEFGHIJKLMNOPQRSTUVWXYZabcdefghijklmnopqrstuvwxyz0123456789!#$%&*+-/:<=>?@^_|~";

pub fn fill_ops(cols: u32, lines: u32, rows: u32, sparse: bool) -> Vec<Op> {
    let marks: Vec<char> = MARKERS.chars().collect();
    let mut ops = Vec::new();
    for y in 0..lines {
        if rows != 0 && (rows >> (y % 32)) & 1 == 0 {
            continue;
        }
        ops.push(Op::Sgr(vec![31 + (y % 6), if y % 2 == 0 { 1 } else { 22 }, 40 + ((y + 3) % 7)]));
        for x in 0..cols {
            if sparse && (x + y) % 3 == 1 {
                continue;
            }
            ops.push(Op::Cup(Some(y + 1), Some(x + 1)));
            let m = marks[((y * 7 + x * 3 + y * cols) as usize) % marks.len()];
            ops.push(Op::Draw(m.to_string()));
        }
    }
    ops.push(Op::Sgr(vec![0]));
    ops.push(Op::Cup(None, None));
    ops
}

impl Term {
    pub fn new(cols: u32, lines: u32, chk: Option<Checker>) -> Term {
        Term {
            tee: Arc::new(Mutex::new(Tee::new(cols, lines, chk))),
            parser: None,
            bparser: None,
            rp: Recog::new(true),
            rb: Recog::new(true),
            rutf: Utf8Ref::new(),
            rb_started: false,
        }
    }

    /// a terminal whose screen is a fork of an already reached state
    pub fn from_screen(screen: Screen, chk: Option<Checker>) -> Term {
        let mut t = Term::new(1, 1, chk);
        lock(&t.tee).screen = screen;
        t.rb_started = false;
        t
    }

    pub fn snap(&self) -> Snap {
        lock(&self.tee).snap()
    }

    fn parser(&mut self) -> &mut Parser<'static, Tee> {
        if self.parser.is_none() {
            self.parser = Some(Parser::new(self.tee.clone()));
        }
        self.parser.as_mut().unwrap()
    }

    fn bparser(&mut self) -> &mut ByteParser<'static, Tee> {
        if self.bparser.is_none() {
            self.bparser = Some(ByteParser::new(self.tee.clone()));
        }
        self.bparser.as_mut().unwrap()
    }

    /// Reference events for a feed operation (advances the reference recogniser).
    pub fn ref_events(&mut self, op: &Op) -> Vec<Op> {
        let mut out = Vec::new();
        match op {
            Op::FeedStr(s) => self.rp.feed_str(s, &mut out),
            Op::FeedBytes(b) => {
                let text = if self.rb.utf8 {
                    let mut t = self.rutf.feed(b);
                    if !self.rb_started && !t.is_empty() {
                        // one leading BOM of the stream is ignored
                        if t.starts_with('\u{feff}') {
                            t.remove(0);
                        }
                        self.rb_started = true;
                    }
                    t
                } else {
                    self.rb_started = true;
                    b.iter().map(|x| *x as char).collect()
                };
                self.rb.feed_str(&text, &mut out);
            }
            Op::SelCharset(code) => match code.as_str() {
                "@" => {
                    self.rb.utf8 = false;
                    self.rutf.clear();
                    self.rb_started = true;
                }
                "G" | "8" => self.rb.utf8 = true,
                _ => {}
            },
            Op::SetUtf8(b) => self.rp.utf8 = *b,
            _ => {}
        }
        out
    }

    /// Execute one operation on the real objects.  Panics propagate to the caller.
    pub fn exec(&mut self, op: &Op) {
        match op {
            Op::FeedStr(s) => self.parser().feed(s.clone()),
            Op::FeedBytes(b) => self.bparser().feed(b),
            Op::SelCharset(code) => self.bparser().select_other_charset(code),
            Op::SetUtf8(b) => self.parser().set_use_utf8(*b),
            Op::Resize(l, c) => lock(&self.tee).resize(*l, *c),
            Op::ClearDirty => lock(&self.tee).clear_dirty(),
            Op::Fill { rows, sparse } => {
                let mut t = lock(&self.tee);
                let (c, l) = (t.screen.columns, t.screen.lines);
                let ops = fill_ops(c, l, *rows, *sparse);
                t.raw(|s| {
                    for o in &ops {
                        apply_listener(s, o);
                    }
                });
            }
            other => {
                let mut t = lock(&self.tee);
                apply_listener(&mut *t, other);
            }
        }
    }

    pub fn take_checker(&self) -> Option<Checker> {
        lock(&self.tee).chk.take()
    }
}

// ------------------------------------------------------------------------------------------
// PlainTerm: the screen attached to the parsers directly, exactly as an embedder does it
// (no forwarding listener in between), so that any path that bypasses the per-call listener
// interface - e.g. a batching method added to the trait with a default - is exercised too.

pub struct PlainTerm {
    pub screen: Arc<Mutex<Screen>>,
    parser: Option<Parser<'static, Screen>>,
    bparser: Option<ByteParser<'static, Screen>>,
}

impl PlainTerm {
    pub fn new(cols: u32, lines: u32) -> PlainTerm {
        PlainTerm { screen: Arc::new(Mutex::new(Screen::new(cols, lines))), parser: None, bparser: None }
    }
    pub fn lock(&self) -> MutexGuard<'_, Screen> {
        self.screen.lock().unwrap_or_else(|e| e.into_inner())
    }
    pub fn snap(&self) -> Snap {
        Snap::of(&self.lock())
    }
    pub fn exec(&mut self, op: &Op) {
        match op {
            Op::FeedStr(s) => {
                if self.parser.is_none() {
                    self.parser = Some(Parser::new(self.screen.clone()));
                }
                self.parser.as_mut().unwrap().feed(s.clone());
            }
            Op::FeedBytes(b) => {
                if self.bparser.is_none() {
                    self.bparser = Some(ByteParser::new(self.screen.clone()));
                }
                self.bparser.as_mut().unwrap().feed(b);
            }
            Op::SelCharset(code) => {
                if self.bparser.is_none() {
                    self.bparser = Some(ByteParser::new(self.screen.clone()));
                }
                self.bparser.as_mut().unwrap().select_other_charset(code);
            }
            Op::SetUtf8(b) => {
                if self.parser.is_none() {
                    self.parser = Some(Parser::new(self.screen.clone()));
                }
                self.parser.as_mut().unwrap().set_use_utf8(*b);
            }
            Op::Resize(l, c) => self.lock().resize(*l, *c),
            Op::ClearDirty => self.lock().dirty.clear(),
            Op::Fill { rows, sparse } => {
                let mut s = self.lock();
                let ops = fill_ops(s.columns, s.lines, *rows, *sparse);
                for o in &ops {
                    apply_listener(&mut *s, o);
                }
            }
            other => {
                let mut s = self.lock();
                apply_listener(&mut *s, other);
            }
        }
    }
    /// run a whole history; Err = (failing op index, panic text)
    pub fn run(cols: u32, lines: u32, ops: &[Op]) -> Result<Snap, (usize, String)> {
        let mut t = PlainTerm::new(cols, lines);
        for (i, op) in ops.iter().enumerate() {
            if catch_unwind(AssertUnwindSafe(|| t.exec(op))).is_err() {
                return Err((i, take_panic()));
            }
        }
        Ok(t.snap())
    }
}

// ------------------------------------------------------------------------------------------
// running a case through the stepper

pub struct CaseResult {
    pub fails: Vec<Failure>,
    pub stats: Stats,
}

/// The property that owns a state component (used to charge "nothing else changes" breaches
/// to the property whose statement defines how that component may change).
pub fn component_owner(diff: &str) -> Option<&'static str> {
    if diff.starts_with("tabstops") {
        Some("C18")
    } else if diff.starts_with("title") || diff.starts_with("icon_name") {
        Some("C19")
    } else if diff.starts_with("savepoint") {
        Some("C14")
    } else if diff.starts_with("charset") {
        Some("C20")
    } else if diff.starts_with("margins") {
        Some("C06")
    } else if diff.starts_with("modes") || diff.starts_with("cursor.hidden") || diff.starts_with("saved_columns") {
        Some("C12")
    } else if diff.starts_with("rendition") {
        Some("C08")
    } else {
        None
    }
}

/// Components of the state about which the statement owning `op` says nothing (neither an
/// effect nor "nothing else changes"): a difference there is not that property's violation and
/// is charged only to the property that owns the component.
pub fn uncovered(op: &Op) -> &'static [&'static str] {
    match op {
        // C16 lists content, size, scrolling region, cursor and dirty rows (and quantifies over the
        // DECCOLM round trip, so the remembered width stays with it)
        Op::Resize(..) => &["tabs", "attr", "hidden", "modes", "title", "charset", "saves", "savedepth"],
        // C12: the modes themselves and, for DECCOLM, width, content and cursor; tab stops are C18's
        Op::Sm(..) | Op::Rm(..) => &["tabs"],
        _ => &[],
    }
}

/// Run a history on the real implementation with the stepwise oracles of `cfg`.
pub fn run_stepper(case: &Case, cfg: &Cfg) -> CaseResult {
    let mut term = Term::new(case.cols, case.lines, Some(Checker::new(cfg.clone())));
    run_on(&mut term, case, 0, cfg)
}

/// Reach a state by running `ops` without any check; None if that panics.
pub fn reach(cols: u32, lines: u32, ops: &[Op]) -> Option<Screen> {
    let mut term = Term::new(cols, lines, None);
    for op in ops {
        if catch_unwind(AssertUnwindSafe(|| term.exec(op))).is_err() {
            let _ = take_panic();
            return None;
        }
    }
    let t = lock(&term.tee);
    Some(t.screen.clone())
}

/// Run `case.ops[from..]` with the stepwise oracles on a fork of an already reached state
/// (the state `case.ops[..from]` leads to); step numbers refer to the whole case.
pub fn run_forked(base: &Screen, case: &Case, from: usize, cfg: &Cfg) -> CaseResult {
    let mut chk = Checker::new(cfg.clone());
    chk.step_no = 0;
    let mut term = Term::from_screen(base.clone(), Some(chk));
    run_on(&mut term, case, from, cfg)
}

/// like `run_forked`, but also hands back the screen reached (for depth-first exploration)
pub fn run_forked_keep(base: &Screen, case: &Case, from: usize, cfg: &Cfg) -> (CaseResult, Screen) {
    let chk = Checker::new(cfg.clone());
    let mut term = Term::from_screen(base.clone(), Some(chk));
    // the direct-attachment differential only makes sense for whole cases
    let res = run_on_opt(&mut term, case, from, cfg, false);
    let screen = lock(&term.tee).screen.clone();
    (res, screen)
}

/// representation-aware fingerprint of a reached state: the abstract snapshot plus which rows
/// and cells are materialised (also outside the grid), so that states that only differ in
/// their sparse representation are explored separately
pub fn state_fingerprint(s: &Screen) -> u64 {
    let mut shape: Vec<(u32, Vec<u32>)> = s
        .buffer
        .iter()
        .map(|(y, row)| {
            let mut xs: Vec<u32> = row.keys().cloned().collect();
            xs.sort();
            (*y, xs)
        })
        .collect();
    shape.sort();
    hash_of(&(hash_of(&Snap::of(s)), shape))
}

fn run_on(term: &mut Term, case: &Case, from: usize, cfg: &Cfg) -> CaseResult {
    run_on_opt(term, case, from, cfg, true)
}

fn run_on_opt(term: &mut Term, case: &Case, from: usize, cfg: &Cfg, direct: bool) -> CaseResult {
    // shadows
    let mut c10_shadow: Option<Term> =
        if cfg.c10 && from == 0 { Some(Term::new(case.cols, case.lines, None)) } else { None };
    let mut c15_shadow: Option<Term> = None;
    let mut extra_fails: Vec<Failure> = Vec::new();
    let mut extra_stats = Stats::default();
    extra_stats.cases = 1;
    let mut osc_open = false;
    let mut esc_open = false;

    'ops: for (i, op) in case.ops.iter().enumerate().skip(from) {
        let is_feed = op.is_feed();
        let pre = if is_feed && cfg.e2e && cfg.model { Some(term.snap()) } else { None };
        let events = term.ref_events(op);
        let fails_before = lock(&term.tee).chk.as_ref().map_or(0, |c| c.fails.len());
        let foreign_before: u64 = lock(&term.tee).chk.as_ref().map_or(0, |c| c.stats.foreign.values().sum());
        // is this feed (part of) an OSC string?  (C19 answers for everything such a feed does)
        let osc_feed = osc_open
            || match op {
                Op::FeedStr(s) => s.contains("\x1b]") || s.contains('\u{9d}') || (esc_open && s.starts_with(']')),
                Op::FeedBytes(b) => {
                    b.windows(2).any(|w| w == b"\x1b]") || b.contains(&0x9d) || (esc_open && b.first() == Some(&b']'))
                }
                _ => false,
            };
        if is_feed {
            osc_open = term.rp.in_osc() || term.rb.in_osc();
            esc_open = term.rp.after_esc() || term.rb.after_esc();
        }
        {
            let mut t = lock(&term.tee);
            if let Some(c) = t.chk.as_mut() {
                c.saw_rc = false;
                c.saw_ris = false;
                c.op_index = i;
            }
        }
        let r = catch_unwind(AssertUnwindSafe(|| term.exec(op)));
        if r.is_err() {
            // only reachable when cfg.catch is off, or for panics outside the listener
            let p = take_panic();
            let mut t = lock(&term.tee);
            if let Some(c) = t.chk.as_mut() {
                c.fail("C01", "panic", op, format!("panicked: {}", p));
                c.fail(op.owner(), "panic", op, format!("panicked: {}", p));
            }
            break 'ops;
        }
        let fails_after = lock(&term.tee).chk.as_ref().map_or(0, |c| c.fails.len());
        let foreign_after: u64 = lock(&term.tee).chk.as_ref().map_or(0, |c| c.stats.foreign.values().sum());

        // ---- end-to-end: reference recogniser + model vs real parser + screen ----
        if let Some(pre) = pre {
            // a stepwise mismatch inside this feed (also one that belongs to another property and
            // was only counted) already explains a different end state and has its owner
            if fails_after == fails_before && foreign_after == foreign_before && invariant_ok(&pre) {
                let mut exp = pre.clone();
                let mut unknown = false;
                let mut free_cursor = false;
                let mut free_tabs = false;
                let m = catch_unwind(AssertUnwindSafe(|| {
                    for e in &events {
                        let n = model::apply(&mut exp, e);
                        unknown |= n.unknown;
                        free_cursor = n.cursor_free;
                        free_tabs |= n.tabs_free;
                    }
                }));
                if m.is_err() {
                    let _ = take_panic();
                    unknown = true;
                }
                if !unknown {
                    let post = term.snap();
                    let mut skip = vec!["dirty"];
                    if free_cursor {
                        skip.push("cursor");
                    }
                    if free_tabs {
                        skip.push("tabs");
                    }
                    extra_stats.evaluations += 1;
                    if let Some(d) = exp.diff(&post, &skip) {
                        let ev: Vec<String> = normalise(&events).iter().map(pretty_op).collect();
                        let owners: Vec<&str> = if cfg.e2e_all && osc_feed {
                            vec![cfg.target.as_str()]
                        } else {
                            // an event's property answers only for the components it covers
                            let mut o: Vec<&str> = vec!["C03"];
                            for e in &events {
                                let mut sk2 = skip.clone();
                                sk2.extend_from_slice(uncovered(e));
                                if exp.diff(&post, &sk2).is_some() && !o.contains(&e.owner()) {
                                    o.push(e.owner());
                                }
                            }
                            if let Some(co) = component_owner(&d) {
                                if !o.contains(&co) {
                                    o.push(co);
                                }
                            }
                            o
                        };
                        for o in owners {
                            if cfg.wants(o) {
                                extra_fails.push(Failure {
                                    property: o.to_string(),
                                    kind: "e2e-mismatch".into(),
                                    step: i,
                                    op: pretty_op(op),
                                    detail: format!(
                                        "documented grammar gives events [{}]; their documented effect vs the real result: {}",
                                        ev.join(", "),
                                        d
                                    ),
                                    sig: format!("{}:e2e-mismatch:{}", o, op.kind()),
                                });
                            }
                        }
                    }
                }
            }
        }

        // ---- C10 lock-step shadow without display() ----
        if let Some(sh) = c10_shadow.as_mut() {
            if !matches!(op, Op::Display) {
                let r = catch_unwind(AssertUnwindSafe(|| sh.exec(op)));
                if r.is_err() {
                    let _ = take_panic();
                    c10_shadow = None;
                } else {
                    let a = term.snap();
                    let b = sh.snap();
                    extra_stats.evaluations += 1;
                    if let Some(d) = a.diff(&b, &[]) {
                        if cfg.wants("C10") {
                            extra_fails.push(Failure {
                                property: "C10".into(),
                                kind: "display-changes-later-behaviour".into(),
                                step: i,
                                op: pretty_op(op),
                                detail: format!(
                                    "run with display() calls vs the same history without them: {}",
                                    d
                                ),
                                sig: format!("C10:display-changes-later-behaviour:{}", op.kind()),
                            });
                        }
                        c10_shadow = None;
                    }
                }
            }
        }

        // ---- C15 shadow ----
        if cfg.c15 {
            let (saw_rc, saw_ris) = {
                let t = lock(&term.tee);
                t.chk.as_ref().map_or((false, false), |c| (c.saw_rc, c.saw_ris))
            };
            if let Some(sh) = c15_shadow.as_mut() {
                if saw_rc {
                    c15_shadow = None;
                } else {
                    let r = catch_unwind(AssertUnwindSafe(|| sh.exec(op)));
                    if r.is_err() {
                        let _ = take_panic();
                        c15_shadow = None;
                    } else {
                        let a = term.snap();
                        let b = sh.snap();
                        extra_stats.evaluations += 1;
                        extra_stats.class("c15-continuation-step");
                        if let Some(d) = a.diff(&b, &["saves", "savedepth"]) {
                            if cfg.wants("C15") {
                                extra_fails.push(Failure {
                                    property: "C15".into(),
                                    kind: "ris-continuation".into(),
                                    step: i,
                                    op: pretty_op(op),
                                    detail: format!(
                                        "history·RIS·continuation vs fresh screen·continuation: {}",
                                        d
                                    ),
                                    sig: format!("C15:ris-continuation:{}", op.kind()),
                                });
                            }
                            c15_shadow = None;
                        }
                    }
                }
            }
            let ris_now = match op {
                Op::Ris => true,
                Op::FeedStr(s) => s == "\x1bc",
                Op::FeedBytes(b) => b == b"\x1bc",
                _ => false,
            };
            if ris_now && saw_ris && term.rp.in_ground() && term.rb.in_ground() && !term.rutf.pending() {
                let a = term.snap();
                let mut sh = Term::new(a.cols, a.lines, None);
                // same parser configuration as the main terminal
                sh.rp = term.rp.clone();
                sh.rb = term.rb.clone();
                if !term.rb.utf8 {
                    sh.exec(&Op::SelCharset("@".into()));
                } else if term.rb_started {
                    // the byte parser of the main terminal is past the start of its stream (where
                    // one BOM is ignored); that is decoder state, not terminal state, so the
                    // fresh terminal's parser is put past it too (BEL has no effect on a screen)
                    sh.exec(&Op::FeedBytes(b"\x07".to_vec()));
                }
                if !term.rp.utf8 {
                    sh.exec(&Op::SetUtf8(false));
                }
                let b = sh.snap();
                extra_stats.evaluations += 1;
                extra_stats.class("c15-ris");
                if let Some(d) = a.diff(&b, &["saves", "savedepth"]) {
                    if cfg.wants("C15") {
                        extra_fails.push(Failure {
                            property: "C15".into(),
                            kind: "ris-state".into(),
                            step: i,
                            op: pretty_op(op),
                            detail: format!("state after RIS vs Screen::new({}, {}): {}", a.cols, a.lines, d),
                            sig: "C15:ris-state".into(),
                        });
                    }
                } else {
                    c15_shadow = Some(sh);
                }
            }
        }
    }

    // direct attachment vs per-call forwarding: the state reached through the checked listener
    // (every step of which agreed with the model) must be the state an embedder gets
    if from == 0 && direct {
        let panicked = lock(&term.tee).chk.as_ref().map_or(false, |c| c.fails.iter().any(|f| f.kind == "panic"));
        if !panicked {
            extra_stats.evaluations += 1;
            match PlainTerm::run(case.cols, case.lines, &case.ops) {
                Ok(direct) => {
                    let forwarded = term.snap();
                    let skip: Vec<&str> = if cfg.dirty { vec!["dirty"] } else { vec![] };
                    if let Some(d) = forwarded.diff(&direct, &skip) {
                        let mut owners: Vec<&str> = vec![cfg.target.as_str()];
                        if cfg.target == "*" {
                            owners = vec!["C02"];
                        }
                        for o in owners {
                            extra_fails.push(Failure {
                                property: o.to_string(),
                                kind: "direct-vs-forwarded".into(),
                                step: case.ops.len().saturating_sub(1),
                                op: case.ops.last().map(pretty_op).unwrap_or_default(),
                                detail: format!(
                                    "the same history through a step-checked forwarding listener vs with the Screen attached to the parser directly (as embedders do): {}",
                                    d
                                ),
                                sig: format!("{}:direct-vs-forwarded", o),
                            });
                        }
                    }
                }
                Err((i, p)) => {
                    if cfg.wants("C01") {
                        extra_fails.push(Failure {
                            property: "C01".into(),
                            kind: "panic".into(),
                            step: i,
                            op: pretty_op(&case.ops[i]),
                            detail: format!("panicked with the Screen attached directly: {}", p),
                            sig: "C01:panic:direct".into(),
                        });
                    }
                }
            }
        }
    }

    let chk = term.take_checker().unwrap();
    let mut fails = chk.fails;
    fails.extend(extra_fails);
    fails.sort_by_key(|f| f.step);
    let mut stats = chk.stats;
    stats.merge(extra_stats);
    CaseResult { fails, stats }
}

fn invariant_ok(s: &Snap) -> bool {
    s.cy < s.lines
        && s.cx <= s.cols
        && s.margins.map_or(true, |(t, b)| t < b && b < s.lines)
        && s.cells.len() == s.lines as usize
}
