//! Independent tables: character classes, xterm-256 palette, character sets.
//! Nothing here is copied from memterm's sources.

use crate::snap::Tbl;

#[derive(Clone, Copy, PartialEq, Eq, Debug, Hash)]
pub enum Class {
    /// occupies one cell
    Narrow,
    /// occupies two cells
    Wide,
    /// zero width combining mark: appended to the previous cell
    Combining,
    /// zero width, not a combining mark: no effect
    ZeroOther,
    /// C0, DEL, C1: no effect
    Unprintable,
    /// display width above 2 (only U+17D8 in unicode-width 0.1): the statements do not say what
    /// happens; excluded from model comparison, still subject to C01 / C09
    Odd,
}

/// Hand-assigned classes of the characters the generators draw.
pub const CLASS_TABLE: &[(char, Class)] = &[
    ('a', Class::Narrow),
    ('Z', Class::Narrow),
    ('~', Class::Narrow),
    (' ', Class::Narrow),
    ('0', Class::Narrow),
    ('_', Class::Narrow),
    ('q', Class::Narrow),
    ('\u{a1}', Class::Narrow),
    ('\u{e9}', Class::Narrow),
    ('\u{ff}', Class::Narrow),
    ('\u{fe}', Class::Narrow),
    ('\u{a0}', Class::Narrow),
    ('\u{100}', Class::Narrow),
    ('\u{903}', Class::Narrow),  // spacing marks: width 1, so they occupy a cell
    ('\u{93e}', Class::Narrow),
    ('\u{bbf}', Class::Narrow),
    ('\u{101}', Class::Narrow),
    ('\u{416}', Class::Narrow),  // Ж
    ('\u{3a9}', Class::Narrow),  // Ω
    ('\u{2502}', Class::Narrow), // │
    ('\u{2588}', Class::Narrow), // █
    ('\u{fffd}', Class::Narrow),
    ('\u{4e2d}', Class::Wide),  // 中
    ('\u{6587}', Class::Wide),  // 文
    ('\u{ff21}', Class::Wide),  // Ａ
    ('\u{d55c}', Class::Wide),  // 한
    ('\u{3042}', Class::Wide),  // あ
    ('\u{1f600}', Class::Wide), // 😀
    ('\u{1100}', Class::Wide),
    ('\u{115f}', Class::Wide),
    ('\u{2e80}', Class::Wide),
    ('\u{3041}', Class::Wide),
    ('\u{ac00}', Class::Wide),
    ('\u{d7a3}', Class::Wide),
    ('\u{f900}', Class::Wide),
    ('\u{ff01}', Class::Wide),
    ('\u{ff60}', Class::Wide),
    ('\u{ffe0}', Class::Wide),
    ('\u{1f300}', Class::Wide),
    ('\u{20000}', Class::Wide),
    ('\u{3fffd}', Class::Wide),
    ('\u{ff15}', Class::Wide),
    ('\u{2126}', Class::Narrow),
    ('\u{212a}', Class::Narrow),
    ('\u{212b}', Class::Narrow),
    ('\u{37e}', Class::Narrow),
    ('\u{2000}', Class::Narrow),
    ('\u{2001}', Class::Narrow),
    ('\u{1f71}', Class::Narrow),
    ('\u{663}', Class::Narrow),
    ('\u{2460}', Class::Narrow),
    ('\u{b2}', Class::Narrow),
    ('\u{bd}', Class::Narrow),
    ('\u{969}', Class::Narrow),
    ('\u{11b}', Class::Narrow),
    ('\u{130}', Class::Narrow),
    ('\u{19c}', Class::Narrow),
    ('\u{301}', Class::Combining),
    ('\u{308}', Class::Combining),
    ('\u{20dd}', Class::Combining),
    ('\u{e31}', Class::Combining),
    ('\u{fe0f}', Class::Combining),
    ('\u{200b}', Class::ZeroOther),
    ('\u{200d}', Class::ZeroOther),
    ('\u{feff}', Class::ZeroOther),
    ('\u{2060}', Class::ZeroOther),
    ('\u{0}', Class::Unprintable),
    ('\u{1}', Class::Unprintable),
    ('\u{7f}', Class::Unprintable),
    ('\u{18}', Class::Unprintable),
    ('\u{1a}', Class::Unprintable),
    ('\u{80}', Class::Unprintable),
    ('\u{85}', Class::Unprintable),
    ('\u{9f}', Class::Unprintable),
];

/// Class of a character: printable ASCII and the table by hand; everything else falls back
/// to the Unicode crates (only reached by raw fuzz input, never by the structured generators).
pub fn class_of(c: char) -> Class {
    let u = c as u32;
    if (0x20..=0x7e).contains(&u) {
        return Class::Narrow;
    }
    if u < 0x20 || (0x7f..=0x9f).contains(&u) {
        return Class::Unprintable;
    }
    for (t, cl) in CLASS_TABLE {
        if *t == c {
            return *cl;
        }
    }
    class_by_crates(c)
}

pub fn class_by_crates(c: char) -> Class {
    use unicode_width::UnicodeWidthChar;
    match c.width() {
        None => Class::Unprintable,
        Some(0) => {
            if unicode_normalization::char::is_combining_mark(c) {
                Class::Combining
            } else {
                Class::ZeroOther
            }
        }
        Some(1) => Class::Narrow,
        Some(2) => Class::Wide,
        Some(_) => Class::Odd,
    }
}

/// The hand-written table must agree with the Unicode crates memterm uses (the properties are
/// about placement given a class, not about classification).  Returns the disagreements.
pub fn class_table_selftest() -> Vec<String> {
    let mut bad = Vec::new();
    for (c, cl) in CLASS_TABLE {
        let k = class_by_crates(*c);
        let same = k == *cl
            // width() reports None for controls: both are "no effect" classes
            || (*cl == Class::Unprintable && k == Class::Unprintable);
        if !same {
            bad.push(format!("U+{:04X}: table {:?}, crates {:?}", *c as u32, cl, k));
        }
    }
    for u in 0x20u32..=0x7e {
        if class_by_crates(char::from_u32(u).unwrap()) != Class::Narrow {
            bad.push(format!("U+{:04X}: ASCII not narrow by crates", u));
        }
    }
    bad
}

// ---------------------------------------------------------------------------------------
// xterm 256-colour palette, computed (16 system colours + 6x6x6 cube + 24 greys)

pub const SYSTEM16: [(u8, u8, u8); 16] = [
    (0x00, 0x00, 0x00),
    (0xcd, 0x00, 0x00),
    (0x00, 0xcd, 0x00),
    (0xcd, 0xcd, 0x00),
    (0x00, 0x00, 0xee),
    (0xcd, 0x00, 0xcd),
    (0x00, 0xcd, 0xcd),
    (0xe5, 0xe5, 0xe5),
    (0x7f, 0x7f, 0x7f),
    (0xff, 0x00, 0x00),
    (0x00, 0xff, 0x00),
    (0xff, 0xff, 0x00),
    (0x5c, 0x5c, 0xff),
    (0xff, 0x00, 0xff),
    (0x00, 0xff, 0xff),
    (0xff, 0xff, 0xff),
];

pub fn palette256(n: u32) -> Option<String> {
    let (r, g, b) = match n {
        0..=15 => SYSTEM16[n as usize],
        16..=231 => {
            let i = n - 16;
            let lvl = |k: u32| -> u8 {
                if k == 0 {
                    0
                } else {
                    (55 + 40 * k) as u8
                }
            };
            (lvl(i / 36), lvl((i / 6) % 6), lvl(i % 6))
        }
        232..=255 => {
            let v = (8 + 10 * (n - 232)) as u8;
            (v, v, v)
        }
        _ => return None,
    };
    Some(format!("{:02x}{:02x}{:02x}", r, g, b))
}

pub const COLOUR_NAMES: [&str; 17] = [
    "default",
    "black",
    "red",
    "green",
    "brown",
    "blue",
    "magenta",
    "cyan",
    "white",
    "brightblack",
    "brightred",
    "brightgreen",
    "brightbrown",
    "brightblue",
    "brightmagenta",
    "brightcyan",
    "brightwhite",
];

pub fn is_valid_colour(s: &str) -> bool {
    COLOUR_NAMES.contains(&s)
        || (s.len() == 6 && s.bytes().all(|b| b.is_ascii_digit() || (b'a'..=b'f').contains(&b)))
}

// ---------------------------------------------------------------------------------------
// character sets

/// CP437: printable range from the platform's `cp437` codec, glyph row 0x01-0x1f/0x7f from the code-page chart.
pub const CP437: [u32; 256] = [
    0x0000, 0x263a, 0x263b, 0x2665, 0x2666, 0x2663, 0x2660, 0x2022,
    0x25d8, 0x25cb, 0x25d9, 0x2642, 0x2640, 0x266a, 0x266b, 0x263c,
    0x25b6, 0x25c0, 0x2195, 0x203c, 0x00b6, 0x00a7, 0x25ac, 0x21a8,
    0x2191, 0x2193, 0x2192, 0x2190, 0x221f, 0x2194, 0x25b2, 0x25bc,
    0x0020, 0x0021, 0x0022, 0x0023, 0x0024, 0x0025, 0x0026, 0x0027,
    0x0028, 0x0029, 0x002a, 0x002b, 0x002c, 0x002d, 0x002e, 0x002f,
    0x0030, 0x0031, 0x0032, 0x0033, 0x0034, 0x0035, 0x0036, 0x0037,
    0x0038, 0x0039, 0x003a, 0x003b, 0x003c, 0x003d, 0x003e, 0x003f,
    0x0040, 0x0041, 0x0042, 0x0043, 0x0044, 0x0045, 0x0046, 0x0047,
    0x0048, 0x0049, 0x004a, 0x004b, 0x004c, 0x004d, 0x004e, 0x004f,
    0x0050, 0x0051, 0x0052, 0x0053, 0x0054, 0x0055, 0x0056, 0x0057,
    0x0058, 0x0059, 0x005a, 0x005b, 0x005c, 0x005d, 0x005e, 0x005f,
    0x0060, 0x0061, 0x0062, 0x0063, 0x0064, 0x0065, 0x0066, 0x0067,
    0x0068, 0x0069, 0x006a, 0x006b, 0x006c, 0x006d, 0x006e, 0x006f,
    0x0070, 0x0071, 0x0072, 0x0073, 0x0074, 0x0075, 0x0076, 0x0077,
    0x0078, 0x0079, 0x007a, 0x007b, 0x007c, 0x007d, 0x007e, 0x2302,
    0x00c7, 0x00fc, 0x00e9, 0x00e2, 0x00e4, 0x00e0, 0x00e5, 0x00e7,
    0x00ea, 0x00eb, 0x00e8, 0x00ef, 0x00ee, 0x00ec, 0x00c4, 0x00c5,
    0x00c9, 0x00e6, 0x00c6, 0x00f4, 0x00f6, 0x00f2, 0x00fb, 0x00f9,
    0x00ff, 0x00d6, 0x00dc, 0x00a2, 0x00a3, 0x00a5, 0x20a7, 0x0192,
    0x00e1, 0x00ed, 0x00f3, 0x00fa, 0x00f1, 0x00d1, 0x00aa, 0x00ba,
    0x00bf, 0x2310, 0x00ac, 0x00bd, 0x00bc, 0x00a1, 0x00ab, 0x00bb,
    0x2591, 0x2592, 0x2593, 0x2502, 0x2524, 0x2561, 0x2562, 0x2556,
    0x2555, 0x2563, 0x2551, 0x2557, 0x255d, 0x255c, 0x255b, 0x2510,
    0x2514, 0x2534, 0x252c, 0x251c, 0x2500, 0x253c, 0x255e, 0x255f,
    0x255a, 0x2554, 0x2569, 0x2566, 0x2560, 0x2550, 0x256c, 0x2567,
    0x2568, 0x2564, 0x2565, 0x2559, 0x2558, 0x2552, 0x2553, 0x256b,
    0x256a, 0x2518, 0x250c, 0x2588, 0x2584, 0x258c, 0x2590, 0x2580,
    0x03b1, 0x00df, 0x0393, 0x03c0, 0x03a3, 0x03c3, 0x00b5, 0x03c4,
    0x03a6, 0x0398, 0x03a9, 0x03b4, 0x221e, 0x03c6, 0x03b5, 0x2229,
    0x2261, 0x00b1, 0x2265, 0x2264, 0x2320, 0x2321, 0x00f7, 0x2248,
    0x00b0, 0x2219, 0x00b7, 0x221a, 0x207f, 0x00b2, 0x25a0, 0x00a0,
];

/// DEC Special Graphics as published with pyte / the Linux console ("VT100 graphics mapped to
/// Unicode"): identity except 0x5f..0x7e (DEC STD 070 line drawing) and the console extras
/// 0x2b..0x2e (arrows) and 0x30 (block).
pub fn dec_graphics(c: u32) -> u32 {
    match c {
        0x2b => 0x2192,
        0x2c => 0x2190,
        0x2d => 0x2191,
        0x2e => 0x2193,
        0x30 => 0x2588,
        0x5f => 0x00a0,
        0x60 => 0x25c6,
        0x61 => 0x2592,
        0x62 => 0x2409,
        0x63 => 0x240c,
        0x64 => 0x240d,
        0x65 => 0x240a,
        0x66 => 0x00b0,
        0x67 => 0x00b1,
        0x68 => 0x2591,
        0x69 => 0x240b,
        0x6a => 0x2518,
        0x6b => 0x2510,
        0x6c => 0x250c,
        0x6d => 0x2514,
        0x6e => 0x253c,
        0x6f => 0x23ba,
        0x70 => 0x23bb,
        0x71 => 0x2500,
        0x72 => 0x23bc,
        0x73 => 0x23bd,
        0x74 => 0x251c,
        0x75 => 0x2524,
        0x76 => 0x2534,
        0x77 => 0x252c,
        0x78 => 0x2502,
        0x79 => 0x2264,
        0x7a => 0x2265,
        0x7b => 0x03c0,
        0x7c => 0x2260,
        0x7d => 0x00a3,
        0x7e => 0x00b7,
        other => other,
    }
}

/// VAX42: CP437 with its eight documented substitutions (golden copy: no independent
/// published source is available offline).
pub fn vax42(c: u32) -> u32 {
    match c {
        0x21 => 0x043b,
        0x3f => 0x0435,
        0x61 => 0x0441,
        0x68 => 0x0435,
        0x6f => 0x043a,
        0x72 => 0x0442,
        0x74 => 0x043b,
        0x75 => 0x0435,
        other => CP437[other as usize],
    }
}

/// Translate a code point through a character set (code points above 255 pass through).
pub fn translate(t: Tbl, c: char) -> Option<char> {
    let u = c as u32;
    if u > 255 {
        return Some(c);
    }
    let v = match t {
        Tbl::Lat1 => u,
        Tbl::Vt100 => dec_graphics(u),
        Tbl::Ibmpc => CP437[u as usize],
        Tbl::Vax42 => vax42(u),
        Tbl::Other(_) => return None,
    };
    char::from_u32(v)
}
