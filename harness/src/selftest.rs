//! Start-up self-tests of the harness itself (a failure is exit 2, never a violation).

use crate::recog::{Recog, St};
use crate::relational::PROBE;
use crate::tables;

pub fn run() -> Vec<String> {
    let mut bad = tables::class_table_selftest();
    // The C01 probe must bring the reference recogniser to ground from every state and then
    // produce Ris + Draw("Z"), whatever the state before.
    let states = vec![
        St::Ground,
        St::Esc,
        St::EscHash,
        St::EscPercent,
        St::EscCharset('('),
        St::Csi { params: vec![1], cur: Some(2), has_digits: true, private: true },
        St::CsiDollar,
        St::OscStart,
        St::Osc { buf: "0;ab".into() },
        St::OscEsc { buf: "2;x".into() },
    ];
    for st in states {
        for utf8 in [true, false] {
            let mut r = Recog { st: st.clone(), utf8 };
            let mut out = Vec::new();
            r.feed_str(PROBE, &mut out);
            let tail: Vec<String> = out.iter().rev().take(2).map(|o| format!("{:?}", o)).collect();
            if !r.in_ground() || tail != vec!["Draw(\"Z\")".to_string(), "Ris".to_string()] {
                bad.push(format!("probe does not resynchronise from {:?}: {:?}", st, out));
            }
        }
    }
    // palette spot checks against the published xterm values
    for (n, want) in [(16u32, "000000"), (21, "0000ff"), (196, "ff0000"), (231, "ffffff"), (232, "080808"), (255, "eeeeee"), (244, "808080"), (110, "87afd7")] {
        if tables::palette256(n).as_deref() != Some(want) {
            bad.push(format!("palette256({}) = {:?}, want {}", n, tables::palette256(n), want));
        }
    }
    bad
}
