//! Exhaustive enumerators for the finite sub-domains (filled in per property).

use crate::runner::{RunFn, Sub};

pub fn c02_subs(_run: RunFn) -> Vec<Sub> { vec![] }
pub fn c03_subs(_run: RunFn) -> Vec<Sub> { vec![] }
pub fn c04_subs() -> Vec<Sub> { vec![] }
pub fn c05_subs() -> Vec<Sub> { vec![] }
pub fn c06_subs() -> Vec<Sub> { vec![] }
pub fn c07_subs() -> Vec<Sub> { vec![] }
pub fn c08_subs() -> Vec<Sub> { vec![] }
pub fn c11_subs(_run: RunFn) -> Vec<Sub> { vec![] }
pub fn c12_subs() -> Vec<Sub> { vec![] }
pub fn c13_subs() -> Vec<Sub> { vec![] }
pub fn c14_subs() -> Vec<Sub> { vec![] }
pub fn c16_subs() -> Vec<Sub> { vec![] }
pub fn c18_subs() -> Vec<Sub> { vec![] }
pub fn c19_subs() -> Vec<Sub> { vec![] }
pub fn c20_subs() -> Vec<Sub> { vec![] }
