//! Exhaustive enumerators for the finite sub-domains.  Each is split into shards that the
//! worker processes pull from a shared counter; every evaluation goes through the same
//! oracles as the generated search.

use std::collections::HashSet;
use std::sync::Arc;

use crate::engine::{hash_of, reach, run_forked, run_forked_keep, run_stepper, state_fingerprint, Cfg};
use crate::ops::{Case, Op, N};
use crate::props::{cfg_for, stepper_run};
use crate::recog::{Recog, St};
use crate::runner::{Acc, RunFn, ShardFn, Sub, SubKind, Tier};
use crate::snap::Snap;

fn exh_sub(name: &'static str, shards: (usize, usize), replay: RunFn, f: impl Fn(usize, Tier, &mut Acc) + Send + Sync + 'static) -> Sub {
    let shard: ShardFn = Arc::new(f);
    Sub { name, kind: SubKind::Exh { shards, shard }, replay }
}

/// parameters {absent, 0, 1, .., size+2, 9999}
fn params(size: u32) -> Vec<N> {
    let mut v: Vec<N> = vec![None];
    for k in 0..=size + 2 {
        v.push(Some(k));
    }
    v.push(Some(9999));
    v
}

/// all valid regions (1-based DECSTBM parameters), preceded by "no region"
fn regions(lines: u32) -> Vec<Option<(u32, u32)>> {
    let mut v = vec![None];
    for t in 1..=lines {
        for b in t + 1..=lines {
            v.push(Some((t, b)));
        }
    }
    v
}

/// Explore candidates from one reached state: the state is built once, forked per candidate.
struct Explorer<'a> {
    cfg: Cfg,
    acc: &'a mut Acc,
    seen: HashSet<u64>,
}

impl<'a> Explorer<'a> {
    fn new(cfg: Cfg, acc: &'a mut Acc) -> Self {
        Explorer { cfg, acc, seen: HashSet::new() }
    }

    /// returns false when the state was already explored (or unreachable)
    fn state(&mut self, cols: u32, lines: u32, setup: &[Op], cands: &mut dyn Iterator<Item = Vec<Op>>) -> bool {
        if self.acc.failed() {
            return false;
        }
        let base = match reach(cols, lines, setup) {
            Some(b) => b,
            None => {
                self.acc.stats.exclude("setup-panicked(C01)");
                return false;
            }
        };
        let h = hash_of(&Snap::of(&base));
        if !self.seen.insert(h) {
            return false;
        }
        self.acc.stats.class("explored-state");
        for cand in cands {
            let mut ops = setup.to_vec();
            let from = ops.len();
            ops.extend(cand);
            let case = Case { cols, lines, ops };
            let res = run_forked(&base, &case, from, &self.cfg);
            self.acc.stats.cases += 0;
            if self.acc.absorb(&case, res).is_some() {
                return true;
            }
        }
        true
    }
}

/// the same operation through the API and as an escape sequence through the char parser
fn both_paths(op: Op) -> Vec<Vec<Op>> {
    let mut v = Vec::new();
    if let Some(seq) = op.to_sequence(false) {
        v.push(vec![Op::FeedStr(seq)]);
    }
    v.insert(0, vec![op]);
    v
}

// ------------------------------------------------------------------------------------------
// C05

const C05_GEOMS: &[(u32, u32)] = &[(1, 1), (1, 3), (3, 1), (2, 2), (4, 3), (5, 4), (8, 5)];

fn c05_shards() -> Vec<(u32, u32, Option<(u32, u32)>)> {
    let mut v = Vec::new();
    for (c, l) in C05_GEOMS {
        for r in regions(*l) {
            v.push((*c, *l, r));
        }
    }
    v
}

fn movement_cands(cols: u32, lines: u32) -> Vec<Vec<Op>> {
    let mut v = Vec::new();
    for n in params(lines) {
        for op in [Op::Cuu(n), Op::Cud(n), Op::Cnl(n), Op::Cpl(n), Op::Vpa(n)] {
            v.extend(both_paths(op));
        }
    }
    for n in params(cols) {
        for op in [Op::Cuf(n), Op::Cub(n), Op::Cha(n)] {
            v.extend(both_paths(op));
        }
    }
    for a in params(lines) {
        for b in params(cols) {
            v.extend(both_paths(Op::Cup(a, b)));
        }
    }
    v.extend(both_paths(Op::Bs));
    v.extend(both_paths(Op::Cr));
    // HPR / VPR / HVP finals reach the same listener methods through the parser
    for n in params(lines) {
        let p = n.map_or(String::new(), |x| x.to_string());
        v.push(vec![Op::FeedStr(format!("\x1b[{}e", p))]);
        v.push(vec![Op::FeedStr(format!("\x1b[{};{}f", p, p))]);
    }
    for n in params(cols) {
        let p = n.map_or(String::new(), |x| x.to_string());
        v.push(vec![Op::FeedStr(format!("\x1b[{}a", p))]);
        v.push(vec![Op::FeedStr(format!("\x1b[2;{}f", p))]);
    }
    v
}

pub fn c05_subs() -> Vec<Sub> {
    let n = c05_shards().len();
    vec![big_sub("C05"), exh_sub("exh-movement", (n, n), stepper_run(cfg_for("C05")), |i, _tier, acc| {
        let (cols, lines, region) = c05_shards()[i];
        let cands = movement_cands(cols, lines);
        let mut ex = Explorer::new(cfg_for("C05"), acc);
        for decom in [false, true] {
            for y in 0..lines {
                for x in 0..=cols {
                    let mut setup = vec![Op::Fill { rows: 0, sparse: true }];
                    let mut top = 0;
                    if let Some((t, b)) = region {
                        setup.push(Op::Stbm(Some(t), Some(b)));
                        top = t - 1;
                    }
                    let mut row = y + 1;
                    if decom {
                        setup.push(Op::Sm(vec![6], true));
                        if let Some((t, b)) = region {
                            if y + 1 < t || y + 1 > b {
                                continue; // not reachable with origin mode on
                            }
                            row = y - top + 1;
                        }
                    }
                    setup.push(Op::Cup(Some(row), Some(x.min(cols - 1) + 1)));
                    if x == cols {
                        setup.push(Op::Draw("w".into()));
                    }
                    ex.state(cols, lines, &setup, &mut cands.clone().into_iter());
                }
            }
        }
    })]
}

/// Large-screen enumeration shared by C05/C06/C07/C13: every parameter value (not only the
/// boundary classes) from a lattice of cursor positions on 80x24, 132x24 and 140x40, so that
/// mid-range rows/columns/counts are covered systematically and not only by chance.
const BIG: &[(u32, u32)] = &[(80, 24), (132, 24), (140, 40)];

fn big_positions(cols: u32, lines: u32, tier: Tier) -> Vec<(u32, u32)> {
    let (xs, ys): (Vec<u32>, Vec<u32>) = if tier == Tier::Thorough {
        (
            vec![0, 1, 7, 8, 31, 32, 63, 64, 65, cols / 2, 127.min(cols - 1), 128.min(cols - 1), cols - 2, cols - 1, cols],
            vec![0, 1, lines / 2, 31.min(lines - 1), 32.min(lines - 1), lines - 2, lines - 1],
        )
    } else {
        (vec![0, 64, 129.min(cols - 2), cols], vec![0, lines / 2 + 1, lines - 1])
    };
    let mut v = Vec::new();
    for y in &ys {
        for x in &xs {
            if !v.contains(&(*x, *y)) {
                v.push((*x, *y));
            }
        }
    }
    v
}

fn big_setup(region: Option<(u32, u32)>, decom: bool, x: u32, y: u32, cols: u32, fill: bool) -> Vec<Op> {
    let mut setup = Vec::new();
    if fill {
        setup.push(Op::Fill { rows: 0, sparse: true });
    }
    if let Some((t, b)) = region {
        setup.push(Op::Stbm(Some(t), Some(b)));
    }
    setup.push(Op::Cup(Some(y + 1), Some(x.min(cols - 1) + 1)));
    if x == cols {
        setup.push(Op::Draw("w".into()));
    }
    if decom {
        setup.push(Op::Sc);
        setup.push(Op::Sm(vec![6], true));
        setup.push(Op::Rc);
    }
    setup
}

pub fn big_sub(id: &'static str) -> Sub {
    let n = BIG.len() * 4;
    exh_sub("exh-large-screens", (n, n), stepper_run(cfg_for(id)), move |i, tier, acc| {
        let (cols, lines) = BIG[i / 4];
        let region = [None, Some((5u32, lines - 3)), None, Some((2u32, 9u32))][i % 4];
        let decom = i % 4 >= 2;
        let all_c: Vec<N> = std::iter::once(None).chain((0..=cols + 2).map(Some)).collect();
        let all_l: Vec<N> = std::iter::once(None).chain((0..=lines + 2).map(Some)).collect();
        let mut cands: Vec<Vec<Op>> = Vec::new();
        match id {
            "C05" => {
                for n in &all_l {
                    for op in [Op::Cuu(*n), Op::Cud(*n), Op::Cnl(*n), Op::Cpl(*n), Op::Vpa(*n)] {
                        cands.push(vec![op]);
                    }
                    cands.push(vec![Op::FeedStr(Op::Cud(*n).to_sequence(false).unwrap())]);
                }
                for n in &all_c {
                    for op in [Op::Cuf(*n), Op::Cub(*n), Op::Cha(*n)] {
                        cands.push(vec![op]);
                    }
                    cands.push(vec![Op::FeedStr(Op::Cha(*n).to_sequence(false).unwrap())]);
                }
                // every row with a few columns, every column with a few rows
                for a in &all_l {
                    for b in [None, Some(1), Some(64), Some(65), Some(cols / 2), Some(129), Some(cols)] {
                        cands.push(vec![Op::Cup(*a, b)]);
                    }
                }
                for b in &all_c {
                    for a in [None, Some(1), Some(lines / 2), Some(33), Some(lines)] {
                        cands.push(vec![Op::Cup(a, *b)]);
                        if tier == Tier::Thorough {
                            cands.push(vec![Op::FeedStr(Op::Cup(a, *b).to_sequence(false).unwrap())]);
                        }
                    }
                }
            }
            "C06" => {
                for n in &all_l {
                    cands.push(vec![Op::Il(*n)]);
                    cands.push(vec![Op::Dl(*n)]);
                }
                for a in &all_l {
                    for b in [None, Some(1), Some(lines / 2), Some(33), Some(lines), Some(lines + 1)] {
                        cands.push(vec![Op::Stbm(*a, b)]);
                        cands.push(vec![Op::Stbm(b, *a)]);
                    }
                }
                for op in [Op::Ind, Op::Lf, Op::Ri] {
                    cands.push(vec![op]);
                }
            }
            "C07" => {
                for s in [None, Some(0), Some(1), Some(2), Some(3), Some(4)] {
                    cands.push(vec![Op::Ed(s, None)]);
                    cands.push(vec![Op::El(s, None)]);
                }
                for n in &all_c {
                    cands.push(vec![Op::Ech(*n)]);
                }
            }
            _ => {
                for n in &all_c {
                    cands.push(vec![Op::Ich(*n)]);
                    cands.push(vec![Op::Dch(*n)]);
                }
                cands.push(vec![Op::Sm(vec![4], false), Op::Draw("i\u{4e2d}".into())]);
            }
        }
        let mut ex = Explorer::new(cfg_for(id), acc);
        for (x, y) in big_positions(cols, lines, tier) {
            let setup = big_setup(region, decom, x, y, cols, id != "C05");
            ex.state(cols, lines, &setup, &mut cands.clone().into_iter());
        }
    })
}

// ------------------------------------------------------------------------------------------
// C06

const C06_GEOMS: &[(u32, u32)] = &[(2, 2), (3, 3), (1, 4), (4, 3), (3, 5), (5, 5), (2, 1)];
const C06_FILLS: &[Option<(u32, bool)>] = &[Some((0, false)), Some((0b0101_0101, false)), Some((0b0110_0110, true)), None];

pub fn c06_subs() -> Vec<Sub> {
    let n = C06_GEOMS.len() * C06_FILLS.len();
    let mut cfg = cfg_for("C06");
    cfg.adopt = vec![];
    vec![big_sub("C06"), exh_sub("exh-scroll", (n, n), stepper_run(cfg_for("C06")), move |i, _tier, acc| {
        let (cols, lines) = C06_GEOMS[i / C06_FILLS.len()];
        let fill = C06_FILLS[i % C06_FILLS.len()];
        let mut cands: Vec<Vec<Op>> = Vec::new();
        for op in [Op::Ind, Op::Lf, Op::Ri] {
            cands.extend(both_paths(op));
        }
        cands.push(vec![Op::FeedStr("\x1bE".into())]);
        cands.push(vec![Op::FeedStr("\x0b".into())]);
        cands.push(vec![Op::FeedStr("\x0c".into())]);
        for p in params(lines) {
            cands.extend(both_paths(Op::Il(p)));
            cands.extend(both_paths(Op::Dl(p)));
        }
        for a in params(lines) {
            for b in params(lines) {
                cands.extend(both_paths(Op::Stbm(a, b)));
            }
        }
        // autowrap-induced index at the bottom margin
        cands.push(vec![Op::Cha(Some(cols)), Op::Draw("x".into()), Op::Draw("y".into())]);
        let mut ex = Explorer::new(cfg_for("C06"), acc);
        for region in regions(lines) {
            for modes in 0..4u32 {
                for y in 0..lines {
                    for x in [0, cols - 1] {
                        let mut setup = Vec::new();
                        if let Some((rows, sparse)) = fill {
                            setup.push(Op::Fill { rows, sparse });
                        }
                        if let Some((t, b)) = region {
                            setup.push(Op::Stbm(Some(t), Some(b)));
                        }
                        if modes & 1 == 1 {
                            setup.push(Op::Sm(vec![20], false)); // LNM
                        }
                        if modes & 2 == 2 {
                            setup.push(Op::Sm(vec![6], true)); // DECOM
                        }
                        // reach the row also when origin mode confines CUP: move relatively
                        setup.push(Op::Cup(Some(1), Some(x + 1)));
                        setup.push(Op::Rm(vec![6], true));
                        setup.push(Op::Cup(Some(y + 1), Some(x + 1)));
                        if modes & 2 == 2 {
                            // re-enable origin mode without moving: DECSC / SM / DECRC keeps the position
                            // only if it is inside the region, which is what reachability means here
                            setup.push(Op::Sc);
                            setup.push(Op::Sm(vec![6], true));
                            setup.push(Op::Rc);
                        }
                        ex.state(cols, lines, &setup, &mut cands.clone().into_iter());
                    }
                }
            }
        }
    })]
}

// ------------------------------------------------------------------------------------------
// C07

const C07_GEOMS: &[(u32, u32)] = &[(1, 1), (3, 1), (1, 3), (2, 2), (4, 3), (5, 4)];

pub fn c07_subs() -> Vec<Sub> {
    let n = C07_GEOMS.len() * 2;
    vec![big_sub("C07"), exh_sub("exh-erase", (n, n), stepper_run(cfg_for("C07")), |i, _tier, acc| {
        let (cols, lines) = C07_GEOMS[i / 2];
        let sparse = i % 2 == 1;
        let sels: [N; 8] = [None, Some(0), Some(1), Some(2), Some(3), Some(4), Some(5), Some(9999)];
        let mut cands: Vec<Vec<Op>> = Vec::new();
        for s in sels {
            cands.extend(both_paths(Op::Ed(s, None)));
            cands.extend(both_paths(Op::El(s, None)));
        }
        cands.push(vec![Op::Ed(Some(0), Some(true))]);
        cands.push(vec![Op::El(Some(1), Some(true))]);
        cands.push(vec![Op::FeedStr("\x1b[?2J".into())]);
        cands.push(vec![Op::FeedStr("\x1b[1;5K".into())]);
        for p in params(cols) {
            cands.extend(both_paths(Op::Ech(p)));
        }
        let mut ex = Explorer::new(cfg_for("C07"), acc);
        let regs: Vec<Option<(u32, u32)>> = if lines >= 3 { vec![None, Some((2, 3))] } else if lines == 2 { vec![None, Some((1, 2))] } else { vec![None] };
        for region in regs {
            for decom in [false, true] {
                for rend in [vec![], vec![31u32, 44, 1], vec![7]] {
                    for y in 0..lines {
                        for x in 0..=cols {
                            let mut setup = vec![Op::Fill { rows: if sparse { 0b1011 } else { 0 }, sparse }];
                            if let Some((t, b)) = region {
                                setup.push(Op::Stbm(Some(t), Some(b)));
                            }
                            setup.push(Op::Cup(Some(y + 1), Some(x.min(cols - 1) + 1)));
                            if x == cols {
                                setup.push(Op::Draw("w".into()));
                            }
                            if decom {
                                setup.push(Op::Sc);
                                setup.push(Op::Sm(vec![6], true));
                                setup.push(Op::Rc);
                            }
                            if !rend.is_empty() {
                                setup.push(Op::Sgr(rend.clone()));
                            }
                            ex.state(cols, lines, &setup, &mut cands.clone().into_iter());
                        }
                    }
                }
            }
        }
    })]
}

// ------------------------------------------------------------------------------------------
// C08

fn sgr_case(s0: &[u32], list: Vec<u32>, via_parser: bool) -> Case {
    let op = Op::Sgr(list);
    let mid = if via_parser { Op::FeedStr(op.to_sequence(false).unwrap()) } else { op };
    Case {
        cols: 3,
        lines: 2,
        ops: vec![Op::Draw("k".into()), Op::Sgr(s0.to_vec()), mid, Op::Draw("x".into())],
    }
}

const SGR_DOC: &[u32] = &[
    0, 1, 3, 4, 5, 7, 9, 22, 23, 24, 25, 27, 29, 30, 31, 32, 33, 34, 35, 36, 37, 39, 40, 41, 42,
    43, 44, 45, 46, 47, 49, 90, 91, 92, 93, 94, 95, 96, 97, 100, 101, 102, 103, 104, 105, 106, 107,
];

pub fn c08_subs() -> Vec<Sub> {
    let run = stepper_run(cfg_for("C08"));
    let r1 = run.clone();
    let r2 = run.clone();
    let states: [&[u32]; 6] = [&[], &[1, 3, 4, 5, 7, 9], &[31, 42], &[38, 5, 200, 48, 2, 1, 2, 3], &[97, 100, 4], &[7, 33]];
    vec![
        exh_sub("exh-single-codes", (20, 20), run.clone(), move |i, _t, acc| {
            // every code 0..=9999 from six attribute states, API and parser
            for code in (i as u32 * 500)..((i as u32 + 1) * 500) {
                for s0 in states {
                    for via in [false, true] {
                        if via && code > 300 && code % 97 != 0 {
                            continue;
                        }
                        let c = sgr_case(s0, vec![code], via);
                        let res = r1(&c);
                        if acc.absorb(&c, res).is_some() {
                            return;
                        }
                    }
                }
            }
        }),
        exh_sub("exh-pairs-and-extended", (8, 8), run, move |i, tier, acc| {
            let mut lists: Vec<Vec<u32>> = Vec::new();
            match i {
                0 | 1 => {
                    // all pairs of documented codes (split in two halves)
                    for (k, a) in SGR_DOC.iter().enumerate() {
                        if k % 2 != i {
                            continue;
                        }
                        for b in SGR_DOC {
                            lists.push(vec![*a, *b]);
                        }
                    }
                }
                2 | 3 => {
                    let base = if i == 2 { 38 } else { 48 };
                    for n in 0..=300u32 {
                        lists.push(vec![base, 5, n]);
                        lists.push(vec![base, 5, n, 1]);
                        lists.push(vec![4, base, 5, n, 31]);
                    }
                    for n in [301u32, 999, 9999] {
                        lists.push(vec![base, 5, n, 7]);
                    }
                    lists.push(vec![base]);
                    lists.push(vec![base, 5]);
                    lists.push(vec![base, 7, 1]);
                    lists.push(vec![base, 0, 4]);
                    lists.push(vec![base, 9999, 9]);
                }
                4 | 5 => {
                    let base = if i == 4 { 38 } else { 48 };
                    let comps = [0u32, 1, 127, 255, 256, 300, 9999];
                    for r in comps {
                        for g in comps {
                            for b in comps {
                                lists.push(vec![base, 2, r, g, b]);
                                lists.push(vec![base, 2, r, g, b, 1]);
                            }
                            // truncated tails whose leftovers are themselves codes
                            lists.push(vec![base, 2, r, g]);
                        }
                        lists.push(vec![base, 2, r]);
                    }
                    for tail in [vec![1u32, 4], vec![9, 44], vec![7], vec![31, 1], vec![4]] {
                        let mut l = vec![base, 2];
                        l.extend(tail);
                        lists.push(l);
                    }
                    lists.push(vec![base, 2]);
                }
                _ => {
                    // triples over the documented codes (thorough), a sample in quick
                    let step = if tier == Tier::Thorough { 1 } else { 5 };
                    for (k, a) in SGR_DOC.iter().enumerate() {
                        if k % 2 != i - 6 {
                            continue;
                        }
                        for b in SGR_DOC.iter().step_by(step) {
                            for c in SGR_DOC.iter().step_by(step) {
                                lists.push(vec![*a, *b, *c]);
                            }
                        }
                    }
                }
            }
            for l in lists {
                for s0 in [&[][..], &[1, 3, 4, 5, 7, 9, 35, 46][..]] {
                    for via in [false, true] {
                        let c = sgr_case(s0, l.clone(), via);
                        let res = r2(&c);
                        if acc.absorb(&c, res).is_some() {
                            return;
                        }
                    }
                }
            }
        }),
    ]
}

// ------------------------------------------------------------------------------------------
// C12

fn c12_states() -> Vec<(u32, u32, Vec<Op>)> {
    vec![
        (5, 3, vec![]),
        (5, 3, vec![Op::Fill { rows: 0, sparse: false }, Op::Stbm(Some(2), Some(3)), Op::Sm(vec![6], true), Op::Cup(Some(2), Some(3)), Op::Sgr(vec![1, 31])]),
        (4, 3, vec![Op::Fill { rows: 0b101, sparse: true }, Op::Sm(vec![5], true), Op::Sm(vec![4], false), Op::Cup(Some(2), Some(2))]),
        (6, 2, vec![Op::Fill { rows: 0, sparse: false }, Op::Sm(vec![3], true), Op::Draw("abc".into())]),
        (1, 1, vec![Op::Draw("q".into())]),
        (4, 2, vec![Op::Rm(vec![25], true), Op::Sm(vec![20], false), Op::Rm(vec![7], true), Op::Draw("abcd".into())]),
        (5, 2, vec![Op::Sm(vec![3], true), Op::Resize(Some(3), Some(4)), Op::Fill { rows: 0, sparse: true }, Op::Stbm(Some(1), Some(2))]),
        (7, 3, vec![Op::Fill { rows: 0, sparse: false }, Op::Sc, Op::Sm(vec![5, 6, 7], true), Op::Cup(Some(3), Some(7)), Op::Draw("z".into())]),
    ]
}

pub fn c12_subs() -> Vec<Sub> {
    let n = c12_states().len() * 4;
    vec![exh_sub("exh-all-mode-numbers", (n, n), stepper_run(cfg_for("C12")), |i, _t, acc| {
        let (cols, lines, setup) = c12_states()[i / 4].clone();
        let private = (i % 4) & 1 == 1;
        let set = (i % 4) & 2 == 2;
        let mut ex = Explorer::new(cfg_for("C12"), acc);
        let mut cands = (0..=9999u32).flat_map(move |m| {
            let op = if set { Op::Sm(vec![m], private) } else { Op::Rm(vec![m], private) };
            let mut v = vec![vec![op.clone()]];
            if m <= 260 || m % 32 == 0 || m == 9999 {
                v.push(vec![Op::FeedStr(op.to_sequence(false).unwrap())]);
                // set/set and reset/reset, and the opposite directly afterwards
                v.push(vec![op.clone(), op.clone()]);
                let opp = if set { Op::Rm(vec![m], private) } else { Op::Sm(vec![m], private) };
                v.push(vec![op.clone(), opp]);
            }
            v.into_iter()
        });
        ex.state(cols, lines, &setup, &mut cands);
    })]
}

// ------------------------------------------------------------------------------------------
// C13

fn c13_alphabet(cols: u32) -> Vec<Vec<Op>> {
    let mut a: Vec<Vec<Op>> = Vec::new();
    for n in [Some(1), Some(2), Some(cols - 1), Some(cols + 1)] {
        a.push(vec![Op::Ich(n)]);
        a.push(vec![Op::Dch(n)]);
    }
    a.push(vec![Op::Sm(vec![4], false), Op::Draw("i".into()), Op::Rm(vec![4], false)]);
    a.push(vec![Op::Sm(vec![4], false), Op::Draw("\u{4e2d}".into()), Op::Rm(vec![4], false)]);
    a.push(vec![Op::El(Some(0), None)]);
    a.push(vec![Op::El(Some(1), None)]);
    a.push(vec![Op::El(Some(2), None)]);
    for x in 1..=cols {
        a.push(vec![Op::Cha(Some(x))]);
    }
    a.push(vec![Op::Cha(Some(cols)), Op::Draw("p".into())]); // pending wrap
    a
}

pub fn c13_subs() -> Vec<Sub> {
    let cols = 4;
    let alpha = c13_alphabet(cols).len();
    let n = alpha * 3;
    let run = stepper_run(cfg_for("C13"));
    let r = run.clone();
    vec![
        big_sub("C13"),
        exh_sub("exh-edit-sequences", (n, n), run.clone(), move |i, tier, acc| {
            let a = c13_alphabet(cols);
            let first = i % alpha;
            let variant = i / alpha;
            let setup: Vec<Op> = match variant {
                0 => vec![Op::Fill { rows: 0, sparse: false }],
                1 => vec![],
                _ => vec![Op::Fill { rows: 0b10, sparse: false }, Op::Cup(Some(1), Some(2)), Op::Sgr(vec![32]), Op::Draw("m".into()), Op::Sgr(vec![0]), Op::Cup(None, None)],
            };
            let depth = if tier == Tier::Thorough { 4 } else { 4 };
            // all sequences of length <= depth starting with `first`
            let mut stack: Vec<Vec<usize>> = vec![vec![first]];
            while let Some(seq) = stack.pop() {
                if seq.len() < depth {
                    for k in 0..a.len() {
                        let mut s = seq.clone();
                        s.push(k);
                        stack.push(s);
                    }
                    continue; // prefixes are covered by the step-by-step check of longer sequences
                }
                let mut ops = setup.clone();
                for k in &seq {
                    ops.extend(a[*k].clone());
                }
                let c = Case { cols, lines: 2, ops };
                let res = r(&c);
                if acc.absorb(&c, res).is_some() {
                    return;
                }
            }
        }),
        exh_sub("exh-counts", (6, 6), run, |i, _t, acc| {
            // rows <= 6 columns, cursor at every column incl. pending-wrap, every count
            let cols = i as u32 + 1;
            let mut ex = Explorer::new(cfg_for("C13"), acc);
            let mut cands: Vec<Vec<Op>> = Vec::new();
            for p in params(cols) {
                cands.extend(both_paths(Op::Ich(p)));
                cands.extend(both_paths(Op::Dch(p)));
            }
            for fill in [Some(false), Some(true), None] {
                for irm in [false, true] {
                    for x in 0..=cols {
                        let mut setup = Vec::new();
                        if let Some(sp) = fill {
                            setup.push(Op::Fill { rows: 0, sparse: sp });
                        }
                        if irm {
                            setup.push(Op::Sm(vec![4], false));
                        }
                        setup.push(Op::Sgr(vec![35, 1]));
                        setup.push(Op::Cup(Some(2), Some(x.min(cols - 1) + 1)));
                        if x == cols {
                            setup.push(Op::Rm(vec![4], false));
                            setup.push(Op::Draw("w".into()));
                            if irm {
                                setup.push(Op::Sm(vec![4], false));
                            }
                        }
                        ex.state(cols, 3, &setup, &mut cands.clone().into_iter());
                    }
                }
            }
        }),
    ]
}

// ------------------------------------------------------------------------------------------
// C14

pub fn c14_subs() -> Vec<Sub> {
    let run = stepper_run(cfg_for("C14"));
    let r = run.clone();
    let alphabet = || -> Vec<Op> {
        vec![
            Op::Cup(Some(3), Some(4)),
            Op::Cup(Some(1), Some(1)),
            Op::Cha(Some(5)),
            Op::Draw("ab".into()),
            Op::Sgr(vec![31, 1]),
            Op::Sgr(vec![7, 44]),
            Op::So,
            Op::Si,
            Op::DefCharset("0".into(), "(".into()),
            Op::DefCharset("U".into(), ")".into()),
            Op::Sm(vec![6], true),
            Op::Rm(vec![6], true),
            Op::Rm(vec![7], true),
            Op::Sm(vec![7], true),
            Op::Rm(vec![25], true),
            Op::Stbm(Some(2), Some(3)),
            Op::Stbm(None, None),
            Op::Resize(Some(2), Some(3)),
            Op::Resize(Some(5), Some(7)),
            Op::Ris,
        ]
    };
    let n = alphabet().len();
    vec![exh_sub("exh-save-restore", (n, n), run, move |i, _t, acc| {
        let a = alphabet();
        for k in 0..=3usize {
            for b in 0..a.len() {
                for c in 0..a.len() {
                    for m in 1..=4usize {
                        if k == 0 && m > 2 {
                            continue;
                        }
                        let mut ops = vec![Op::Fill { rows: 0, sparse: true }, a[i].clone()];
                        for j in 0..k {
                            ops.push(Op::Sc);
                            if j == 0 {
                                ops.push(a[b].clone());
                            }
                        }
                        ops.push(a[c].clone());
                        for _ in 0..m {
                            ops.push(Op::Rc);
                        }
                        let case = Case { cols: 5, lines: 4, ops };
                        let res = r(&case);
                        if acc.absorb(&case, res).is_some() {
                            return;
                        }
                    }
                }
            }
        }
    })]
}

// ------------------------------------------------------------------------------------------
// C16

const C16_GEOMS: &[(u32, u32)] = &[(3, 3), (4, 3), (5, 4), (2, 5), (1, 1)];

pub fn c16_subs() -> Vec<Sub> {
    let n = C16_GEOMS.len() * 6;
    vec![exh_sub("exh-resize", (n, n), stepper_run(cfg_for("C16")), |i, tier, acc| {
        let (cols, lines) = C16_GEOMS[i / 6];
        let variant = i % 6;
        let mut ex = Explorer::new(cfg_for("C16"), acc);
        let targets_l: Vec<N> = std::iter::once(None).chain((1..=lines + 2).map(Some)).collect();
        let targets_c: Vec<N> = std::iter::once(None).chain((1..=cols + 2).map(Some)).collect();
        let mut cands: Vec<Vec<Op>> = Vec::new();
        for l in &targets_l {
            for c in &targets_c {
                // single resize, then grow again (content discarded by the shrink must not reappear)
                cands.push(vec![Op::Resize(*l, *c), Op::Resize(Some(lines + 1), Some(cols + 1))]);
                if tier == Tier::Thorough || (l.unwrap_or(lines) + c.unwrap_or(cols)) % 2 == 0 {
                    cands.push(vec![Op::Resize(*l, *c), Op::Draw("n".into()), Op::Resize(Some(lines), Some(cols)), Op::Resize(*l, *c)]);
                }
            }
        }
        let xs: Vec<u32> = vec![0, cols - 1, cols];
        let ys: Vec<u32> = vec![0, lines / 2, lines - 1];
        for x in &xs {
            for y in &ys {
                let mut setup: Vec<Op> = Vec::new();
                match variant {
                    0 => setup.push(Op::Fill { rows: 0, sparse: false }),
                    1 => setup.push(Op::Fill { rows: 0b1010_1010, sparse: true }),
                    2 => {
                        setup.push(Op::Fill { rows: 0, sparse: false });
                        if lines >= 2 {
                            setup.push(Op::Stbm(Some(lines.min(2)), Some(lines)));
                        }
                    }
                    3 => {
                        setup.push(Op::Fill { rows: 0, sparse: false });
                        if lines >= 3 {
                            setup.push(Op::Stbm(Some(2), Some(3)));
                        }
                        setup.push(Op::Sm(vec![6], true));
                    }
                    4 => {
                        // wide characters on every row, so that a cut lands on one
                        setup.push(Op::Fill { rows: 0, sparse: false });
                        for r in 0..lines {
                            setup.push(Op::Cup(Some(r + 1), Some(((r + cols - 1) % cols).max(1))));
                            setup.push(Op::Draw("\u{4e2d}".into()));
                        }
                    }
                    _ => {
                        // leftovers of edits: ICH at the edge, RI at the top, EL at pending wrap
                        setup.push(Op::Fill { rows: 0, sparse: false });
                        setup.push(Op::Cup(Some(1), Some(1)));
                        setup.push(Op::Ich(Some(1)));
                        setup.push(Op::Ri);
                        setup.push(Op::Cup(Some(lines), Some(cols)));
                        setup.push(Op::Draw("e".into()));
                        setup.push(Op::El(Some(1), None));
                        setup.push(Op::Sm(vec![5], true));
                    }
                }
                setup.push(Op::Sc);
                setup.push(Op::Rm(vec![6], true));
                setup.push(Op::Cup(Some(*y + 1), Some((*x).min(cols - 1) + 1)));
                if *x == cols {
                    setup.push(Op::Draw("w".into()));
                }
                if variant == 3 {
                    setup.push(Op::Sm(vec![6], true));
                }
                ex.state(cols, lines, &setup, &mut cands.clone().into_iter());
            }
        }
    })]
}

// ------------------------------------------------------------------------------------------
// C18

pub fn c18_subs() -> Vec<Sub> {
    let run = stepper_run(cfg_for("C18"));
    vec![
        exh_sub("exh-default-stops", (14, 14), run.clone(), |i, _t, acc| {
            // widths 1..=140: fresh screen and after reset, HT from every column
            let mut ex = Explorer::new(cfg_for("C18"), acc);
            for w in (i as u32 * 10 + 1)..=(i as u32 * 10 + 10) {
                for reset in [false, true] {
                    for x in 0..=w {
                        let mut setup = Vec::new();
                        if reset {
                            setup.push(Op::Hts);
                            setup.push(Op::Tbc(Some(3)));
                            setup.push(Op::Ris);
                        }
                        setup.push(Op::Cha(Some(x.min(w - 1) + 1)));
                        if x == w {
                            setup.push(Op::Draw("w".into()));
                        }
                        let cands: Vec<Vec<Op>> = vec![vec![Op::Tab], vec![Op::FeedStr("\t".into())], vec![Op::Tab, Op::Tab]];
                        ex.state(w, 2, &setup, &mut cands.into_iter());
                    }
                }
            }
        }),
        exh_sub("exh-stop-subsets", (8 * 16, 12 * 16), run.clone(), |i, _t, acc| {
            // every stop subset of small widths x every cursor column x every tab operation
            let w = (i / 16) as u32 + 1;
            let part = (i % 16) as u32;
            let mut ex = Explorer::new(cfg_for("C18"), acc);
            let mut cands: Vec<Vec<Op>> = Vec::new();
            cands.extend(both_paths(Op::Tab));
            cands.extend(both_paths(Op::Hts));
            for s in [None, Some(0), Some(3), Some(1), Some(2), Some(5), Some(9999)] {
                cands.extend(both_paths(Op::Tbc(s)));
            }
            for mask in 0..(1u32 << w) {
                if mask % 16 != part {
                    continue;
                }
                for x in 0..=w {
                    let mut setup = vec![Op::Tbc(Some(3))];
                    for s in 0..w {
                        if mask >> s & 1 == 1 {
                            setup.push(Op::Cha(Some(s + 1)));
                            setup.push(Op::Hts);
                        }
                    }
                    setup.push(Op::Cha(Some(x.min(w - 1) + 1)));
                    if x == w {
                        setup.push(Op::Draw("w".into()));
                    }
                    ex.state(w, 1, &setup, &mut cands.clone().into_iter());
                }
            }
        }),
        exh_sub("exh-single-stops-all-widths", (140, 140), run.clone(), |i, tier, acc| {
            // one stop at every column, cursor at every column, every width up to 140
            // (sparse stop sets on wide screens: distances of more than 64 / 128 columns)
            let w = i as u32 + 1;
            let mut ex = Explorer::new(cfg_for("C18"), acc);
            let step = if tier == Tier::Thorough || w <= 40 || w >= 126 { 1 } else { 3 };
            for s in (0..w).step_by(step) {
                let setup = vec![Op::Tbc(Some(3)), Op::Cha(Some(s + 1)), Op::Hts, Op::Cr];
                let mut cands: Vec<Vec<Op>> = Vec::new();
                for x in 0..w {
                    cands.push(vec![Op::Cha(Some(x + 1)), Op::Tab]);
                }
                // a second stop far to the right of the first
                for s2 in [s + 64, s + 65, s + 128, s + 129, s + 130] {
                    if s2 < w {
                        cands.push(vec![Op::Cha(Some(s2 + 1)), Op::Hts, Op::Cha(Some(s + 1)), Op::Tab, Op::Tab]);
                        cands.push(vec![Op::Cha(Some(s2 + 1)), Op::Hts, Op::Cha(Some(s + 1)), Op::Tbc(None), Op::Cr, Op::Tab]);
                    }
                }
                ex.state(w, 1, &setup, &mut cands.into_iter());
            }
        }),
        exh_sub("exh-width-changes", (7, 10), run, |i, _t, acc| {
            // a stop set at one width, used at another (resize and DECCOLM in between)
            let w = i as u32 + 2;
            let mut ex = Explorer::new(cfg_for("C18"), acc);
            for mask in 0..(1u32 << (w + 1)) {
                for w2 in 1..=w + 2 {
                    let mut setup = vec![Op::Tbc(Some(3))];
                    for s in 0..=w {
                        if mask >> s & 1 == 1 {
                            setup.push(Op::Cha(Some(s.min(w - 1) + 1)));
                            if s == w {
                                setup.push(Op::Draw("w".into())); // stop at the pending-wrap column
                            }
                            setup.push(Op::Hts);
                        }
                    }
                    setup.push(Op::Resize(None, Some(w2)));
                    let mut cands: Vec<Vec<Op>> = Vec::new();
                    for x in 0..w2 {
                        cands.push(vec![Op::Cha(Some(x + 1)), Op::Tab, Op::Tab]);
                    }
                    cands.push(vec![Op::Cha(Some(w2)), Op::Draw("w".into()), Op::Tab]);
                    ex.state(w, 1, &setup, &mut cands.into_iter());
                }
            }
        }),
    ]
}

// ------------------------------------------------------------------------------------------
// C20

pub fn c20_subs() -> Vec<Sub> {
    let run = stepper_run(cfg_for("C20"));
    let r = run.clone();
    vec![exh_sub("exh-tables", (17, 17), run, move |i, _t, acc| {
        let mut cases: Vec<Case> = Vec::new();
        if i < 16 {
            let tbl = ["B", "0", "U", "V"][i / 4];
            let slot = ["(", ")"][(i / 2) % 2];
            let shift_out = i % 2 == 1;
            for cp in 0..=255u32 {
                let ch = char::from_u32(cp).unwrap().to_string();
                cases.push(Case {
                    cols: 3,
                    lines: 1,
                    ops: vec![
                        Op::DefCharset(tbl.into(), slot.into()),
                        if shift_out { Op::So } else { Op::Si },
                        Op::Draw(ch.clone()),
                        Op::Draw(ch),
                    ],
                });
                // through the byte parser in 8-bit mode
                let mut bytes = vec![0x1b, slot.as_bytes()[0], tbl.as_bytes()[0], if shift_out { 0x0e } else { 0x0f }];
                bytes.push(cp as u8);
                bytes.push(b'q');
                cases.push(Case { cols: 3, lines: 1, ops: vec![Op::SelCharset("@".into()), Op::FeedBytes(bytes.clone())] });
                // ... and in UTF-8 mode, where shifts and designators are ignored
                if cp < 0x80 {
                    cases.push(Case { cols: 3, lines: 1, ops: vec![Op::FeedBytes(bytes)] });
                }
            }
        } else {
            for (code, mode) in [("A", "("), ("K", ")"), ("0", "*"), ("x", "("), ("", "("), ("B0", ")"), ("0", "")] {
                for so in [false, true] {
                    for t in ["q", "\u{2500}", "\u{4e2d}", "\u{ff}", "\u{100}", "a\u{301}"] {
                        cases.push(Case {
                            cols: 4,
                            lines: 1,
                            ops: vec![
                                Op::DefCharset("U".into(), ")".into()),
                                Op::DefCharset(code.into(), mode.into()),
                                if so { Op::So } else { Op::Si },
                                Op::Draw(t.into()),
                            ],
                        });
                    }
                }
            }
            // the char parser with the UTF-8 flag off / on
            for utf8 in [false, true] {
                for tbl in ["B", "0", "U", "V", "A"] {
                    for slot in ["(", ")"] {
                        cases.push(Case {
                            cols: 4,
                            lines: 1,
                            ops: vec![Op::SetUtf8(utf8), Op::FeedStr(format!("\x1b{}{}\x0eq\x0fq\u{e9}", slot, tbl))],
                        });
                    }
                }
            }
        }
        for c in cases {
            let res = r(&c);
            if acc.absorb(&c, res).is_some() {
                return;
            }
        }
    })]
}

// ------------------------------------------------------------------------------------------
// C04: small exhaustive product of texts x edge states

pub fn c04_subs() -> Vec<Sub> {
    let run = stepper_run(cfg_for("C04"));
    vec![exh_sub("exh-edge-states", (12, 12), run, |i, _t, acc| {
        let (cols, lines) = [(1u32, 1u32), (1, 2), (2, 1), (2, 2), (3, 2), (4, 3)][i / 2];
        let sparse = i % 2 == 1;
        let chars = ["a", "\u{4e2d}", "\u{301}", "\u{200b}", "\u{0}", "\u{e9}", "\u{7f}"];
        let mut cands: Vec<Vec<Op>> = Vec::new();
        for a in chars {
            cands.push(vec![Op::Draw(a.into())]);
            cands.push(vec![Op::FeedStr(a.into())]);
            for b in chars {
                cands.push(vec![Op::Draw(format!("{}{}", a, b))]);
                for c in ["a", "\u{4e2d}", "\u{301}"] {
                    cands.push(vec![Op::Draw(format!("{}{}{}", a, b, c))]);
                }
            }
        }
        let mut ex = Explorer::new(cfg_for("C04"), acc);
        for modes in 0..16u32 {
            for region in [false, true] {
                if region && lines < 2 {
                    continue;
                }
                for y in 0..lines {
                    for x in 0..=cols {
                        let mut setup = vec![Op::Fill { rows: if sparse { 0b101 } else { 0 }, sparse }];
                        if region {
                            setup.push(Op::Stbm(Some(1), Some(2)));
                        }
                        if modes & 1 != 0 {
                            setup.push(Op::Rm(vec![7], true));
                        }
                        if modes & 2 != 0 {
                            setup.push(Op::Sm(vec![4], false));
                        }
                        if modes & 4 != 0 {
                            setup.push(Op::Sm(vec![20], false));
                        }
                        if modes & 8 != 0 {
                            setup.push(Op::Sm(vec![5], true));
                        }
                        setup.push(Op::Sgr(vec![36, 4]));
                        setup.push(Op::Cup(Some(y + 1), Some(x.min(cols - 1) + 1)));
                        if x == cols {
                            setup.push(Op::Sc);
                            setup.push(Op::Rm(vec![4], false));
                            setup.push(Op::Draw("w".into()));
                            if modes & 2 != 0 {
                                setup.push(Op::Sm(vec![4], false));
                            }
                        }
                        ex.state(cols, lines, &setup, &mut cands.clone().into_iter());
                    }
                }
            }
        }
    })]
}

// ------------------------------------------------------------------------------------------
// C19: small payload grammar x introducers x codes x terminators x every 2-way split

pub fn c19_subs() -> Vec<Sub> {
    let run = stepper_run(cfg_for("C19"));
    let r = run.clone();
    let codes = ["0", "1", "2", "3", "a", "10", "21", "104"];
    let n = 2 * codes.len() * 3;
    vec![exh_sub("exh-osc-grammar", (n, n), run, move |i, tier, acc| {
        let intro = ["\x1b]", "\u{9d}"][i % 2];
        let code = codes[(i / 2) % codes.len()];
        let term = ["\x07", "\u{9c}", "\x1b\\"][i / (2 * codes.len())];
        let atoms = ["a", ";", "\\", "]", "\u{e9}", "\x1bx", "\x08", " ", "\u{4e2d}", "\x1b["];
        let depth = if tier == Tier::Thorough { 3 } else { 2 };
        let mut payloads: Vec<String> = vec![String::new()];
        let mut layer: Vec<String> = vec![String::new()];
        for _ in 0..depth {
            let mut next = Vec::new();
            for p in &layer {
                for a in atoms {
                    next.push(format!("{}{}", p, a));
                }
            }
            payloads.extend(next.clone());
            layer = next;
        }
        for p in payloads {
            let whole = format!("p{}{};{}{}s", intro, code, p, term);
            let chars: Vec<char> = whole.chars().collect();
            // chars, whole and every 2-way split
            for cut in 0..=chars.len() {
                let a: String = chars[..cut].iter().collect();
                let b: String = chars[cut..].iter().collect();
                let ops = if cut == 0 { vec![Op::FeedStr(whole.clone())] } else { vec![Op::FeedStr(a), Op::FeedStr(b)] };
                let c = Case { cols: 6, lines: 2, ops };
                let res = r(&c);
                if acc.absorb(&c, res).is_some() {
                    return;
                }
            }
            // bytes (UTF-8), whole and every 2-way split
            let bytes = whole.as_bytes();
            for cut in (0..=bytes.len()).step_by(1) {
                let ops = if cut == 0 {
                    vec![Op::FeedBytes(bytes.to_vec())]
                } else {
                    vec![Op::FeedBytes(bytes[..cut].to_vec()), Op::FeedBytes(bytes[cut..].to_vec())]
                };
                let c = Case { cols: 6, lines: 2, ops };
                let res = r(&c);
                if acc.absorb(&c, res).is_some() {
                    return;
                }
            }
        }
    })]
}

// ------------------------------------------------------------------------------------------
// C11: every 2-way split and byte-at-a-time of all short fragment sequences

const FRAGS: &[&[u8]] = &[
    b"a", b"\xc3\xa9", b"\xe4\xb8\xad", b"\xf0\x9f\x98\x80", b"\xef\xbb\xbf", b"\xc0", b"\x80", b"\xed\xa0\x80",
    b"\xf4\x90", b"\xff", b"\xe4\xb8", b"\xf0\x9f", b"\xf0\x9f\x98", b"\xc3", b"\xe0\x80", b"\xf4\x8f\xbf\xbf",
    b"\xed\x9f\xbf", b"\xee\x80\x80", b"\x1b[", b"1m", b"\xc2\x9b", b"\xe2\x82", b"\xf0\x90\x80\x80", b"\xf1",
    b"\xfe", b"\xff\xfe", b"\xfe\xff",
];

pub fn c11_subs(run: RunFn) -> Vec<Sub> {
    let r = run.clone();
    let n = FRAGS.len();
    vec![exh_sub("exh-2way-splits", (n, n), run, move |i, tier, acc| {
        let depth3 = tier == Tier::Thorough;
        let mut strings: Vec<Vec<u8>> = Vec::new();
        for b in 0..FRAGS.len() {
            let mut s = FRAGS[i].to_vec();
            s.extend_from_slice(FRAGS[b]);
            strings.push(s.clone());
            for c in 0..FRAGS.len() {
                if !depth3 && (b + c) % 4 != 0 {
                    continue;
                }
                let mut t = s.clone();
                t.extend_from_slice(FRAGS[c]);
                strings.push(t);
            }
        }
        strings.push(FRAGS[i].to_vec());
        for s in strings {
            for mode8 in [false, true] {
                let mut variants: Vec<Vec<Op>> = Vec::new();
                for cut in 0..=s.len() {
                    variants.push(vec![Op::FeedBytes(s[..cut].to_vec()), Op::FeedBytes(s[cut..].to_vec())]);
                }
                variants.push(s.iter().map(|b| Op::FeedBytes(vec![*b])).collect());
                // every 3-way split (state that survives more than one chunk boundary), for
                // strings short enough; with an ASCII chunk in front so that nothing is "first"
                if s.len() <= 9 {
                    for i in 0..=s.len() {
                        for j in i..=s.len() {
                            variants.push(vec![
                                Op::FeedBytes(b"k".to_vec()),
                                Op::FeedBytes(s[..i].to_vec()),
                                Op::FeedBytes(s[i..j].to_vec()),
                                Op::FeedBytes(s[j..].to_vec()),
                                Op::FeedBytes(b"ok".to_vec()),
                            ]);
                        }
                    }
                }
                for mut v in variants {
                    if mode8 {
                        v.insert(0, Op::SelCharset("@".into()));
                        // switch back in the middle: the held tail must be dropped by `@` only
                        let at = 2.min(v.len());
                        v.insert(at, Op::SelCharset("G".into()));
                    }
                    v.push(Op::FeedBytes(b"x".to_vec()));
                    let c = Case { cols: 1, lines: 1, ops: v };
                    let res = r(&c);
                    if acc.absorb(&c, res).is_some() {
                        return;
                    }
                }
            }
        }
    })]
}

// ------------------------------------------------------------------------------------------
// C02: every 2-way split and unit-at-a-time feeding of fixed streams and captured sessions

fn fixed_streams() -> Vec<String> {
    // deterministic streams decoded from counter-based byte strings (not random)
    let mut v = Vec::new();
    for k in 0..240u32 {
        let bytes: Vec<u8> = (0..96u32).map(|j| ((k * 131 + j * 29 + (j * j * 7 + k * k)) % 256) as u8).collect();
        let mut src = crate::src::Src::new(&bytes);
        v.push(crate::gen::stream(&mut src, 5, false));
    }
    v
}

pub fn c02_subs(run: RunFn) -> Vec<Sub> {
    let r = run.clone();
    let r2 = run.clone();
    vec![
        exh_sub("exh-2way-splits", (24, 24), run.clone(), move |i, _t, acc| {
            let streams = fixed_streams();
            for (k, s) in streams.iter().enumerate() {
                if k % 24 != i {
                    continue;
                }
                let chars: Vec<char> = s.chars().collect();
                // Parser: every character boundary, and char-at-a-time
                let mut variants: Vec<Vec<Op>> = Vec::new();
                for cut in 1..chars.len() {
                    variants.push(vec![Op::FeedStr(chars[..cut].iter().collect()), Op::FeedStr(chars[cut..].iter().collect())]);
                }
                variants.push(chars.iter().map(|c| Op::FeedStr(c.to_string())).collect());
                // ByteParser UTF-8 and 8-bit: every byte offset, and byte-at-a-time
                for eight in [false, true] {
                    let b = crate::gen::encode(s, eight);
                    for cut in 1..b.len() {
                        let mut v = vec![Op::FeedBytes(b[..cut].to_vec()), Op::FeedBytes(b[cut..].to_vec())];
                        if eight {
                            v.insert(0, Op::SelCharset("@".into()));
                        }
                        variants.push(v);
                    }
                    let mut v: Vec<Op> = b.iter().map(|x| Op::FeedBytes(vec![*x])).collect();
                    if eight {
                        v.insert(0, Op::SelCharset("@".into()));
                    }
                    variants.push(v);
                }
                // every 3-way split of the UTF-8 byte form (bounded length)
                let b = crate::gen::encode(s, false);
                if b.len() <= 40 {
                    for i in 1..b.len() {
                        for j in i + 1..b.len() {
                            variants.push(vec![
                                Op::FeedBytes(b[..i].to_vec()),
                                Op::FeedBytes(b[i..j].to_vec()),
                                Op::FeedBytes(b[j..].to_vec()),
                            ]);
                        }
                    }
                }
                for v in variants {
                    let c = Case { cols: 7, lines: 3, ops: v };
                    let res = r(&c);
                    if acc.absorb(&c, res).is_some() {
                        return;
                    }
                }
            }
            // truncated multi-byte sequences followed by ASCII, every 3-way split, after a first chunk
            if i == 0 {
                let heads: [&[u8]; 8] = [b"\xf0\x9f\x98", b"\xf0\x9f", b"\xe4\xb8", b"\xc3", b"\xf0", b"\xe2\x82\xac", b"\xf0\x9f\x98\x80", b"\xed\xa0"];
                for h in heads {
                    for tail in [&b"ok"[..], b"A\x98", b"\x1b[1mz", b"\x80y"] {
                        let mut s = b"p".to_vec();
                        s.extend_from_slice(h);
                        s.extend_from_slice(tail);
                        for a in 0..=s.len() {
                            for b2 in a..=s.len() {
                                let c = Case {
                                    cols: 7,
                                    lines: 2,
                                    ops: vec![Op::FeedBytes(s[..a].to_vec()), Op::FeedBytes(s[a..b2].to_vec()), Op::FeedBytes(s[b2..].to_vec())],
                                };
                                let res = r(&c);
                                if acc.absorb(&c, res).is_some() {
                                    return;
                                }
                            }
                        }
                    }
                }
            }
        }),
        exh_sub("captured-sessions", (28, 56), run, move |i, tier, acc| {
            // the repository's captured sessions: every 2-way split of a window, random-free
            let names = ["cat-gpl3", "find-etc", "htop", "ls", "mc", "top", "vi"];
            let name = names[i % 7];
            let part = i / 7;
            let path = format!("/repo/assets/captured/{}.input", name);
            let data = match std::fs::read(&path) {
                Ok(d) => d,
                Err(_) => {
                    acc.stats.exclude("captured-session-missing");
                    return;
                }
            };
            let win = if tier == Tier::Thorough { 1500 } else { 700 };
            // windows at different offsets into the session (a prefix keeps the state meaningful)
            let start = (part * data.len() / 9).min(data.len().saturating_sub(win));
            let window = &data[start..(start + win).min(data.len())];
            let step = if tier == Tier::Thorough { 1 } else { 3 };
            for cut in (1..window.len()).step_by(step) {
                let c = Case {
                    cols: 80,
                    lines: 24,
                    ops: vec![Op::FeedBytes(window[..cut].to_vec()), Op::FeedBytes(window[cut..].to_vec())],
                };
                let res = r2(&c);
                if acc.absorb(&c, res).is_some() {
                    return;
                }
            }
            // k-way: fixed chunk sizes
            for size in [1usize, 2, 3, 5, 7, 16, 61] {
                let c = Case { cols: 80, lines: 24, ops: window.chunks(size).map(|ch| Op::FeedBytes(ch.to_vec())).collect() };
                let res = r2(&c);
                if acc.absorb(&c, res).is_some() {
                    return;
                }
            }
        }),
    ]
}

// ------------------------------------------------------------------------------------------
// C03: bounded exhaustive enumeration with ground-state pruning

fn successors(st: &St) -> Vec<char> {
    const C0X: [char; 7] = ['\x07', '\x08', '\x09', '\x0a', '\x0b', '\x0c', '\x0d'];
    match st {
        St::Ground => {
            let mut v = vec!['\x1b', '\u{9b}', '\u{9d}', '\u{9c}', 'a', '\u{e9}', '\u{4e2d}', '\x7f', '\x00', '\x18', '\x0e', '\x0f', '['];
            v.extend(C0X);
            v
        }
        St::Esc => vec![
            '[', ']', '#', '%', '(', ')', 'c', 'D', 'E', 'M', 'H', '7', '8', '=', 'Z', '\\', '\x1b', '\x07', 'a', '\x18', '\u{9b}', '\x0a',
        ],
        St::EscHash => vec!['8', '3', '\x1b', 'a'],
        St::EscPercent => vec!['@', 'G', 'a', '\x1b'],
        St::EscCharset(_) => vec!['B', '0', 'U', 'V', 'A', '\x1b', '\x07'],
        St::Csi { .. } => {
            let mut v = vec!['0', '1', '9', ';', '?', '$', ' ', '>', '\x18', '\x1a', '\x1b', '\u{e9}', '\u{9b}', '\x0e', ':', '<'];
            v.extend(C0X);
            v.extend(['@', 'A', 'B', 'C', 'D', 'E', 'F', 'G', 'H', 'J', 'K', 'L', 'M', 'P', 'X', 'a', 'c', 'd', 'e', 'f', 'g', 'h', 'l', 'm', 'r']);
            v.extend(['S', 'n', '~']);
            v
        }
        St::CsiDollar => vec!['p', '\x1b', 'a', '\x07'],
        // R, P, p, terminators and ESC directly after the introducer are outside the domain
        St::OscStart => vec!['0', '1', '2', '3', 'a', ';'],
        St::Osc { .. } => vec![';', '\x1b', '\\', '\x07', '\u{9c}', 'a', '0', '\x18', '\u{e9}'],
        St::OscEsc { .. } => vec!['\\', 'x', '\x1b', '['],
    }
}

/// does the symbol keep the recogniser inside a CSI (used for the depth budget)?
fn c03_eval(s: &str, run: &RunFn, acc: &mut Acc) -> bool {
    let text = format!("{}X", s);
    let variants = [
        vec![Op::FeedStr(text.clone())],
        vec![Op::SetUtf8(false), Op::FeedStr(text.clone())],
        vec![Op::FeedBytes(text.as_bytes().to_vec())],
        vec![Op::SelCharset("@".into()), Op::FeedBytes(crate::gen::encode(&text, true))],
    ];
    for (k, v) in variants.into_iter().enumerate() {
        // the 8-bit byte variant only makes sense for code points <= 0xff
        if k == 3 && text.chars().any(|c| c as u32 > 0xff) {
            continue;
        }
        let c = Case { cols: 1, lines: 1, ops: v };
        let res = run(&c);
        if acc.absorb(&c, res).is_some() {
            return false;
        }
    }
    true
}

fn c03_dfs(prefix: &mut String, rec: &Recog, depth_left: usize, run: &RunFn, acc: &mut Acc) -> bool {
    for sym in successors(&rec.st) {
        let mut r = rec.clone();
        let mut sink = Vec::new();
        r.feed(sym, &mut sink);
        prefix.push(sym);
        if !c03_eval(prefix, run, acc) {
            prefix.pop();
            return false;
        }
        // ground-state pruning: in ground the machine has no memory
        if !r.in_ground() && depth_left > 1 {
            if !c03_dfs(prefix, &r, depth_left - 1, run, acc) {
                prefix.pop();
                return false;
            }
        }
        prefix.pop();
    }
    true
}

fn c03_roots() -> Vec<String> {
    // all non-ground prefixes of length 2 (plus the length-1 strings, which shard 0 evaluates)
    let mut roots = Vec::new();
    let g = Recog::new(true);
    for a in successors(&St::Ground) {
        let mut r = g.clone();
        let mut sink = Vec::new();
        r.feed(a, &mut sink);
        if r.in_ground() {
            continue;
        }
        for b in successors(&r.st) {
            let mut r2 = r.clone();
            r2.feed(b, &mut sink);
            if !r2.in_ground() {
                roots.push(format!("{}{}", a, b));
            }
        }
    }
    roots
}

pub fn c03_subs(run: RunFn) -> Vec<Sub> {
    let n = c03_roots().len() + 1;
    let r = run.clone();
    vec![exh_sub("exh-bounded-strings", (n, n), run, move |i, tier, acc| {
        let max_len = if tier == Tier::Thorough { 6 } else { 5 };
        if i == 0 {
            // strings of length 1 and 2
            let g = Recog::new(true);
            let mut p = String::new();
            c03_dfs(&mut p, &g, 2, &r, acc);
            return;
        }
        let root = c03_roots()[i - 1].clone();
        let mut rec = Recog::new(true);
        let mut sink = Vec::new();
        rec.feed_str(&root, &mut sink);
        let mut p = root.clone();
        c03_dfs(&mut p, &rec, max_len - 2, &r, acc);
    })]
}

#[allow(dead_code)]
fn unused(_: &Cfg, _: fn(&Case, &Cfg) -> crate::engine::CaseResult) {
    let _ = run_stepper;
}


// ------------------------------------------------------------------------------------------
// small-scope exploration: every sequence of operations up to a bounded length over a fixed
// alphabet on a tiny screen, depth first from forked states, with every stepwise oracle of the
// property at every node.  States (abstract snapshot + sparse representation) already
// expanded with at least the same remaining depth are pruned.

pub fn small_alphabet() -> Vec<Vec<Op>> {
    vec![
        vec![Op::Draw("a".into())],
        vec![Op::Draw("\u{4e2d}".into())],
        vec![Op::Draw("\u{301}".into())],
        vec![Op::Draw("\u{200b}b".into())],
        vec![Op::Cr],
        vec![Op::Lf],
        vec![Op::Bs],
        vec![Op::Cuf(Some(1))],
        vec![Op::Cub(None)],
        vec![Op::Cup(None, None)],
        vec![Op::Cup(Some(2), Some(3))],
        vec![Op::Cuu(None)],
        vec![Op::Cud(Some(2))],
        vec![Op::Ich(Some(1))],
        vec![Op::Dch(Some(1))],
        vec![Op::Ech(None)],
        vec![Op::El(Some(0), None)],
        vec![Op::El(Some(1), None)],
        vec![Op::Ed(Some(2), None)],
        vec![Op::Ed(Some(0), None)],
        vec![Op::Il(None)],
        vec![Op::Dl(None)],
        vec![Op::Ri],
        vec![Op::Ind],
        vec![Op::Sm(vec![4], false)],
        vec![Op::Rm(vec![7], true)],
        vec![Op::Sm(vec![6], true)],
        vec![Op::Sm(vec![5], true)],
        vec![Op::Rm(vec![5], true)],
        vec![Op::Sm(vec![20], false)],
        vec![Op::Stbm(Some(2), Some(3))],
        vec![Op::Stbm(None, None)],
        vec![Op::Sc],
        vec![Op::Rc],
        vec![Op::Resize(Some(2), Some(2))],
        vec![Op::Resize(Some(3), Some(4))],
        vec![Op::Tab],
        vec![Op::Hts],
        vec![Op::Tbc(Some(3))],
        vec![Op::Display],
        vec![Op::Sgr(vec![7])],
        vec![Op::Sgr(vec![27, 31])],
        vec![Op::So],
        vec![Op::Ris],
        vec![Op::Aln],
        vec![Op::FeedStr("\x1b[".into())],
        vec![Op::FeedStr("2;1H".into())],
    ]
}

fn scope_dfs(
    base: &memterm::screen::Screen,
    prefix: &mut Vec<Op>,
    depth_left: usize,
    alpha: &[Vec<Op>],
    cfg: &Cfg,
    geom: (u32, u32),
    seen: &mut std::collections::HashMap<u64, usize>,
    acc: &mut Acc,
) -> bool {
    for a in alpha {
        // the two parser fragments only make sense in order; a feed leaves parser state that a
        // forked screen cannot carry, so they are only explored as the last step of a sequence
        if a[0].is_feed() && depth_left > 1 {
            continue;
        }
        let from = prefix.len();
        prefix.extend(a.iter().cloned());
        let case = Case { cols: geom.0, lines: geom.1, ops: prefix.clone() };
        let (res, after) = run_forked_keep(base, &case, from, cfg);
        let failed = acc.absorb(&case, res).is_some();
        if failed {
            prefix.truncate(from);
            return false;
        }
        if depth_left > 1 {
            let fp = state_fingerprint(&after);
            let known = seen.get(&fp).cloned().unwrap_or(0);
            if known < depth_left - 1 {
                seen.insert(fp, depth_left - 1);
                if !scope_dfs(&after, prefix, depth_left - 1, alpha, cfg, geom, seen, acc) {
                    prefix.truncate(from);
                    return false;
                }
            } else {
                acc.stats.class("small-scope-pruned-state");
            }
        }
        prefix.truncate(from);
    }
    true
}

pub fn small_scope_sub(id: &'static str, replay: RunFn) -> Sub {
    // the property's own operations join the alphabet where the common one lacks them
    let alphabet = move || {
        let mut a = small_alphabet();
        if id == "C19" {
            a.push(vec![Op::Title("t;\\".into())]);
            a.push(vec![Op::Icon("\u{e9}".into())]);
        }
        a
    };
    let n = alphabet().len();
    exh_sub("exh-small-scope", (n, n), replay, move |i, tier, acc| {
        let alpha = alphabet();
        let depth = if tier == Tier::Thorough { 6 } else { 5 };
        let mut cfg = if id == "C01" {
            let mut c = Cfg::stepper("C01");
            c.model = false;
            c.inv = false;
            c.display = false;
            c.e2e = false;
            c
        } else {
            cfg_for(id)
        };
        // the lock-step shadows need whole cases; the stepwise oracles are what runs here
        cfg.c10 = false;
        cfg.c15 = false;
        let geom = (3u32, 3u32);
        let first = alpha[i].clone();
        if first[0].is_feed() {
            return;
        }
        let base = match reach(geom.0, geom.1, &[]) {
            Some(b) => b,
            None => return,
        };
        let mut prefix: Vec<Op> = Vec::new();
        let case = Case { cols: geom.0, lines: geom.1, ops: first.clone() };
        let (res, after) = run_forked_keep(&base, &case, 0, &cfg);
        if acc.absorb(&case, res).is_some() {
            return;
        }
        prefix.extend(first);
        let mut seen = std::collections::HashMap::new();
        scope_dfs(&after, &mut prefix, depth - 1, &alpha, &cfg, geom, &mut seen, acc);
    })
}

pub fn c01_subs(run: RunFn) -> Vec<Sub> {
    vec![small_scope_sub("C01", crate::runner::isolated(run))]
}
