//! Reference recogniser: an explicit-state machine written from the grammar in C03 / C19
//! (and a conforming streaming UTF-8 decoder for C11).  It shares no code with memterm's
//! coroutine.  `PINNED` marks choices the statement leaves open (pyte's behaviour).

use crate::ops::Op;

#[derive(Clone, Debug, PartialEq, Eq, Hash)]
pub enum St {
    Ground,
    Esc,
    EscHash,
    EscPercent,
    EscCharset(char),
    Csi { params: Vec<u32>, cur: Option<u32>, has_digits: bool, private: bool },
    CsiDollar,
    /// just after the OSC introducer
    OscStart,
    /// inside the OSC string (everything after the introducer is collected)
    Osc { buf: String },
    OscEsc { buf: String },
}

#[derive(Clone, Debug)]
pub struct Recog {
    pub st: St,
    pub utf8: bool,
}

pub const ESC: char = '\x1b';
pub const CSI_C1: char = '\u{9b}';
pub const OSC_C1: char = '\u{9d}';
pub const ST_C1: char = '\u{9c}';
pub const BEL: char = '\x07';

impl Recog {
    pub fn new(utf8: bool) -> Self {
        Recog { st: St::Ground, utf8 }
    }

    pub fn in_ground(&self) -> bool {
        self.st == St::Ground
    }

    /// inside an OSC string
    pub fn in_osc(&self) -> bool {
        matches!(self.st, St::OscStart | St::Osc { .. } | St::OscEsc { .. })
    }

    /// just after an ESC
    pub fn after_esc(&self) -> bool {
        self.st == St::Esc
    }

    pub fn feed_str(&mut self, s: &str, out: &mut Vec<Op>) {
        for c in s.chars() {
            self.feed(c, out);
        }
    }

    fn c0(&self, c: char, out: &mut Vec<Op>) -> bool {
        match c {
            '\x07' => out.push(Op::Bell),
            '\x08' => out.push(Op::Bs),
            '\x09' => out.push(Op::Tab),
            '\x0a' | '\x0b' | '\x0c' => out.push(Op::Lf),
            '\x0d' => out.push(Op::Cr),
            _ => return false,
        }
        true
    }

    pub fn feed(&mut self, c: char, out: &mut Vec<Op>) {
        let st = std::mem::replace(&mut self.st, St::Ground);
        self.st = match st {
            St::Ground => {
                if c == ESC {
                    St::Esc
                } else if c == CSI_C1 {
                    new_csi()
                } else if c == OSC_C1 {
                    St::OscStart
                } else if self.c0(c, out) {
                    St::Ground
                } else if c == '\x0e' || c == '\x0f' {
                    // in UTF-8 mode shifts are ignored
                    if !self.utf8 {
                        out.push(if c == '\x0e' { Op::So } else { Op::Si });
                    }
                    St::Ground
                } else {
                    out.push(Op::Draw(c.to_string()));
                    St::Ground
                }
            }
            St::Esc => match c {
                '[' => new_csi(),
                ']' => St::OscStart,
                '#' => St::EscHash,
                '%' => St::EscPercent,
                '(' | ')' => St::EscCharset(c),
                _ => {
                    match c {
                        'c' => out.push(Op::Ris),
                        'D' => out.push(Op::Ind),
                        'E' => out.push(Op::Lf), // PINNED: NEL is dispatched to linefeed
                        'M' => out.push(Op::Ri),
                        'H' => out.push(Op::Hts),
                        '7' => out.push(Op::Sc),
                        '8' => out.push(Op::Rc),
                        _ => {} // unknown final: consumed without effect
                    }
                    St::Ground
                }
            },
            St::EscHash => {
                if c == '8' {
                    out.push(Op::Aln);
                }
                St::Ground
            }
            St::EscPercent => St::Ground, // the designator is consumed, no listener event
            St::EscCharset(mode) => {
                if !self.utf8 {
                    out.push(Op::DefCharset(c.to_string(), mode.to_string()));
                }
                St::Ground
            }
            St::Csi { mut params, mut cur, mut has_digits, mut private } => {
                if c == '?' {
                    private = true;
                    St::Csi { params, cur, has_digits, private }
                } else if self.c0(c, out) {
                    // embedded BEL/BS/HT/LF/VT/FF/CR are executed immediately
                    St::Csi { params, cur, has_digits, private }
                } else if c == ' ' || c == '>' {
                    St::Csi { params, cur, has_digits, private }
                } else if c == '\x18' || c == '\x1a' {
                    St::Ground // CAN / SUB abort the sequence
                } else if c.is_ascii_digit() {
                    let d = c as u32 - '0' as u32;
                    let v = cur.unwrap_or(0).saturating_mul(10).saturating_add(d).min(9999);
                    cur = Some(v);
                    has_digits = true;
                    St::Csi { params, cur, has_digits, private }
                } else if c == '$' {
                    St::CsiDollar
                } else {
                    params.push(cur.unwrap_or(0));
                    if c == ';' {
                        St::Csi { params, cur: None, has_digits: false, private }
                    } else {
                        if let Some(op) = csi_final(c, &params, private) {
                            out.push(op);
                        }
                        St::Ground
                    }
                }
            }
            St::CsiDollar => St::Ground, // `$` + final is skipped
            St::OscStart => {
                // PINNED: Linux-console palette forms `OSC R` / `OSC p`
                // return to ground at once (excluded from the conformance domain)
                if c == 'R' || c == 'p' {
                    St::Ground
                } else {
                    let mut buf = String::new();
                    buf.push(c);
                    St::Osc { buf }
                }
            }
            St::Osc { mut buf } => {
                if c == ESC {
                    St::OscEsc { buf }
                } else if c == BEL || c == ST_C1 {
                    osc_end(&buf, out);
                    St::Ground
                } else {
                    buf.push(c);
                    St::Osc { buf }
                }
            }
            St::OscEsc { mut buf } => {
                if c == '\\' {
                    osc_end(&buf, out);
                    St::Ground
                } else {
                    // `ESC x` inside the string belongs to the payload
                    buf.push(ESC);
                    buf.push(c);
                    St::Osc { buf }
                }
            }
        };
    }
}

fn new_csi() -> St {
    St::Csi { params: Vec::new(), cur: None, has_digits: false, private: false }
}

fn osc_end(buf: &str, out: &mut Vec<Op>) {
    // Ps is everything before the first `;`; only Ps = 0, 1, 2 have an effect.
    let (code, payload) = match buf.find(';') {
        Some(i) => (&buf[..i], &buf[i + 1..]),
        None => (buf, ""),
    };
    match code {
        "0" => {
            out.push(Op::Icon(payload.to_string()));
            out.push(Op::Title(payload.to_string()));
        }
        "1" => out.push(Op::Icon(payload.to_string())),
        "2" => out.push(Op::Title(payload.to_string())),
        _ => {}
    }
}

fn csi_final(f: char, p: &[u32], private: bool) -> Option<Op> {
    let p0 = p.first().cloned();
    let p1 = p.get(1).cloned();
    Some(match f {
        '@' => Op::Ich(p0),
        'A' => Op::Cuu(p0),
        'B' | 'e' => Op::Cud(p0),
        'C' | 'a' => Op::Cuf(p0),
        'D' => Op::Cub(p0),
        'E' => Op::Cnl(p0),
        'F' => Op::Cpl(p0),
        'G' => Op::Cha(p0),
        'H' | 'f' => Op::Cup(p0, p1), // first parameter = row, second = column
        'J' => Op::Ed(p0, None),
        'K' => Op::El(p0, None),
        'L' => Op::Il(p0),
        'M' => Op::Dl(p0),
        'P' => Op::Dch(p0),
        'X' => Op::Ech(p0),
        'c' => Op::Da(p0, None),
        'd' => Op::Vpa(p0),
        'g' => Op::Tbc(p0),
        'h' => Op::Sm(p.to_vec(), private),
        'l' => Op::Rm(p.to_vec(), private),
        'm' => Op::Sgr(p.to_vec()),
        'r' => Op::Stbm(p0, p1),
        _ => return None,
    })
}

/// Canonical form of an event list for comparison: adjacent text merged, empty text dropped,
/// and the icon/title pair of OSC 0 put in a fixed order.
pub fn normalise(events: &[Op]) -> Vec<Op> {
    let mut out: Vec<Op> = Vec::new();
    for e in events {
        match e {
            Op::Draw(t) => {
                let t: String = t.clone();
                if t.is_empty() {
                    continue;
                }
                if let Some(Op::Draw(prev)) = out.last_mut() {
                    prev.push_str(&t);
                } else {
                    out.push(Op::Draw(t));
                }
            }
            Op::Icon(t) => {
                // Title(t), Icon(t)  ->  Icon(t), Title(t)
                if let Some(Op::Title(pt)) = out.last() {
                    if pt == t {
                        let last = out.len() - 1;
                        out.insert(last, Op::Icon(t.clone()));
                        continue;
                    }
                }
                out.push(e.clone());
            }
            // the private flag of ED/EL/DA is not part of the grammar (the parser passes none)
            Op::Ed(n, _) => out.push(Op::Ed(*n, None)),
            Op::El(n, _) => out.push(Op::El(*n, None)),
            Op::Da(n, _) => out.push(Op::Da(*n, None)),
            other => out.push(other.clone()),
        }
    }
    out
}

// ---------------------------------------------------------------------------------------------
// reference streaming UTF-8 decoder (C11): the standard library's validation drives it

#[derive(Clone, Debug, Default)]
pub struct Utf8Ref {
    tail: Vec<u8>,
}

impl Utf8Ref {
    pub fn new() -> Self {
        Utf8Ref { tail: Vec::new() }
    }
    pub fn pending(&self) -> bool {
        !self.tail.is_empty()
    }
    pub fn clear(&mut self) {
        self.tail.clear();
    }
    /// Decode `data` appended to the held tail: each well-formed sequence yields its code point,
    /// each maximal ill-formed subpart yields U+FFFD, an incomplete (still possibly valid)
    /// trailing sequence is held.
    pub fn feed(&mut self, data: &[u8]) -> String {
        let mut bytes = std::mem::take(&mut self.tail);
        bytes.extend_from_slice(data);
        let mut out = String::new();
        let mut rest: &[u8] = &bytes;
        loop {
            match std::str::from_utf8(rest) {
                Ok(s) => {
                    out.push_str(s);
                    rest = &[];
                    break;
                }
                Err(e) => {
                    let (good, bad) = rest.split_at(e.valid_up_to());
                    out.push_str(std::str::from_utf8(good).unwrap());
                    match e.error_len() {
                        Some(n) => {
                            out.push('\u{fffd}');
                            rest = &bad[n..];
                        }
                        None => {
                            rest = bad;
                            break;
                        }
                    }
                }
            }
        }
        self.tail = rest.to_vec();
        out
    }
}
