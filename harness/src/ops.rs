//! Operations: every `ParserListener` method of `Screen`, `resize`, `display`, the embedder
//! clearing `dirty`, and the three ways of feeding input through a parser.

use memterm::parser_listener::ParserListener;
use serde::{Deserialize, Serialize};

pub type N = Option<u32>;

#[derive(Clone, Debug, PartialEq, Eq, Hash, Serialize, Deserialize)]
pub enum Op {
    // ---- input through a recogniser ----
    /// `Parser::feed` (characters)
    FeedStr(String),
    /// `ByteParser::feed` (bytes)
    FeedBytes(Vec<u8>),
    /// `ByteParser::select_other_charset(code)`
    SelCharset(String),
    /// `Parser::set_use_utf8`
    SetUtf8(bool),
    // ---- direct screen API ----
    Draw(String),
    Bell,
    Bs,
    Tab,
    Lf,
    Cr,
    So,
    Si,
    Ind,
    Ri,
    Hts,
    Sc,
    Rc,
    Ris,
    Aln,
    DefCharset(String, String),
    Ich(N),
    Cuu(N),
    Cud(N),
    Cuf(N),
    Cub(N),
    Cnl(N),
    Cpl(N),
    Cha(N),
    Cup(N, N),
    Vpa(N),
    Ed(N, Option<bool>),
    El(N, Option<bool>),
    Il(N),
    Dl(N),
    Dch(N),
    Ech(N),
    Da(N, Option<bool>),
    Tbc(N),
    Sm(Vec<u32>, bool),
    Rm(Vec<u32>, bool),
    Sgr(Vec<u32>),
    Title(String),
    Icon(String),
    Stbm(N, N),
    /// `Screen::resize(lines, columns)`
    Resize(N, N),
    Display,
    /// the embedder clears `screen.dirty`
    ClearDirty,
    /// setup macro: write a distinct, coloured marker into the cells selected by `rows` (bit
    /// mask over rows, 0 = all rows) through the public API; not step-checked itself
    Fill { rows: u32, sparse: bool },
}

impl Op {
    pub fn is_feed(&self) -> bool {
        matches!(self, Op::FeedStr(_) | Op::FeedBytes(_))
    }

    /// short kind name (used in signatures, statistics, ownership)
    pub fn kind(&self) -> &'static str {
        match self {
            Op::FeedStr(_) => "feedstr",
            Op::FeedBytes(_) => "feedbytes",
            Op::SelCharset(_) => "selcharset",
            Op::SetUtf8(_) => "setutf8",
            Op::Draw(_) => "draw",
            Op::Bell => "bell",
            Op::Bs => "bs",
            Op::Tab => "ht",
            Op::Lf => "lf",
            Op::Cr => "cr",
            Op::So => "so",
            Op::Si => "si",
            Op::Ind => "ind",
            Op::Ri => "ri",
            Op::Hts => "hts",
            Op::Sc => "decsc",
            Op::Rc => "decrc",
            Op::Ris => "ris",
            Op::Aln => "decaln",
            Op::DefCharset(..) => "defcharset",
            Op::Ich(_) => "ich",
            Op::Cuu(_) => "cuu",
            Op::Cud(_) => "cud",
            Op::Cuf(_) => "cuf",
            Op::Cub(_) => "cub",
            Op::Cnl(_) => "cnl",
            Op::Cpl(_) => "cpl",
            Op::Cha(_) => "cha",
            Op::Cup(..) => "cup",
            Op::Vpa(_) => "vpa",
            Op::Ed(..) => "ed",
            Op::El(..) => "el",
            Op::Il(_) => "il",
            Op::Dl(_) => "dl",
            Op::Dch(_) => "dch",
            Op::Ech(_) => "ech",
            Op::Da(..) => "da",
            Op::Tbc(_) => "tbc",
            Op::Sm(..) => "sm",
            Op::Rm(..) => "rm",
            Op::Sgr(_) => "sgr",
            Op::Title(_) => "title",
            Op::Icon(_) => "icon",
            Op::Stbm(..) => "decstbm",
            Op::Resize(..) => "resize",
            Op::Display => "display",
            Op::ClearDirty => "cleardirty",
            Op::Fill { .. } => "fill",
        }
    }

    /// The property that owns the semantics of this operation kind (DESIGN 2.4).
    pub fn owner(&self) -> &'static str {
        match self {
            Op::Draw(_) => "C04",
            Op::Cuu(_) | Op::Cud(_) | Op::Cuf(_) | Op::Cub(_) | Op::Cnl(_) | Op::Cpl(_)
            | Op::Cha(_) | Op::Cup(..) | Op::Vpa(_) | Op::Bs | Op::Cr => "C05",
            Op::Ind | Op::Lf | Op::Ri | Op::Il(_) | Op::Dl(_) | Op::Stbm(..) => "C06",
            Op::Ed(..) | Op::El(..) | Op::Ech(_) => "C07",
            Op::Sgr(_) => "C08",
            Op::Sm(..) | Op::Rm(..) => "C12",
            Op::Ich(_) | Op::Dch(_) => "C13",
            Op::Sc | Op::Rc => "C14",
            Op::Ris => "C15",
            Op::Resize(..) => "C16",
            Op::Tab | Op::Hts | Op::Tbc(_) => "C18",
            Op::Title(_) | Op::Icon(_) => "C19",
            Op::So | Op::Si | Op::DefCharset(..) => "C20",
            Op::Display => "C10",
            Op::FeedStr(_) | Op::FeedBytes(_) | Op::SelCharset(_) | Op::SetUtf8(_) => "C03",
            // no property owns the semantics of these; mismatches are only counted
            Op::Bell | Op::Aln | Op::Da(..) | Op::ClearDirty | Op::Fill { .. } => "C00",
        }
    }

    /// Render the operation as the escape sequence a program would send (None when there is
    /// no such sequence).  `c1` selects the 8-bit introducer U+009B for CSI sequences.
    pub fn to_sequence(&self, c1: bool) -> Option<String> {
        fn n(x: &N) -> String {
            match x {
                Some(v) => v.to_string(),
                None => String::new(),
            }
        }
        let csi = if c1 { "\u{9b}" } else { "\x1b[" };
        let one = |p: &N, f: &str| Some(format!("{}{}{}", csi, n(p), f));
        match self {
            Op::Draw(s) => Some(s.clone()),
            Op::Bell => Some("\x07".into()),
            Op::Bs => Some("\x08".into()),
            Op::Tab => Some("\t".into()),
            Op::Lf => Some("\n".into()),
            Op::Cr => Some("\r".into()),
            Op::So => Some("\x0e".into()),
            Op::Si => Some("\x0f".into()),
            Op::Ind => Some("\x1bD".into()),
            Op::Ri => Some("\x1bM".into()),
            Op::Hts => Some("\x1bH".into()),
            Op::Sc => Some("\x1b7".into()),
            Op::Rc => Some("\x1b8".into()),
            Op::Ris => Some("\x1bc".into()),
            Op::Aln => Some("\x1b#8".into()),
            Op::DefCharset(code, mode) => Some(format!("\x1b{}{}", mode, code)),
            Op::Ich(p) => one(p, "@"),
            Op::Cuu(p) => one(p, "A"),
            Op::Cud(p) => one(p, "B"),
            Op::Cuf(p) => one(p, "C"),
            Op::Cub(p) => one(p, "D"),
            Op::Cnl(p) => one(p, "E"),
            Op::Cpl(p) => one(p, "F"),
            Op::Cha(p) => one(p, "G"),
            Op::Cup(a, b) => Some(match (a, b) {
                (None, None) => format!("{}H", csi),
                (a, None) => format!("{}{}H", csi, n(a)),
                (a, b) => format!("{}{};{}H", csi, n(a), n(b)),
            }),
            Op::Vpa(p) => one(p, "d"),
            Op::Ed(p, _) => one(p, "J"),
            Op::El(p, _) => one(p, "K"),
            Op::Il(p) => one(p, "L"),
            Op::Dl(p) => one(p, "M"),
            Op::Dch(p) => one(p, "P"),
            Op::Ech(p) => one(p, "X"),
            Op::Da(p, _) => one(p, "c"),
            Op::Tbc(p) => one(p, "g"),
            Op::Sm(ms, private) | Op::Rm(ms, private) => {
                let l: Vec<String> = ms.iter().map(|m| m.to_string()).collect();
                let f = if matches!(self, Op::Sm(..)) { "h" } else { "l" };
                Some(format!("{}{}{}{}", csi, if *private { "?" } else { "" }, l.join(";"), f))
            }
            Op::Sgr(ms) => {
                let l: Vec<String> = ms.iter().map(|m| m.to_string()).collect();
                Some(format!("{}{}m", csi, l.join(";")))
            }
            Op::Title(t) => Some(format!("\x1b]2;{}\x07", t)),
            Op::Icon(t) => Some(format!("\x1b]1;{}\x07", t)),
            Op::Stbm(a, b) => Some(match (a, b) {
                (None, None) => format!("{}r", csi),
                (a, None) => format!("{}{}r", csi, n(a)),
                (a, b) => format!("{}{};{}r", csi, n(a), n(b)),
            }),
            _ => None,
        }
    }
}

/// Execute a listener-level operation on anything implementing `ParserListener`
/// (returns false for operations that are not listener calls).
pub fn apply_listener<L: ParserListener + ?Sized>(l: &mut L, op: &Op) -> bool {
    match op {
        Op::Draw(s) => l.draw(s),
        Op::Bell => l.bell(),
        Op::Bs => l.backspace(),
        Op::Tab => l.tab(),
        Op::Lf => l.linefeed(),
        Op::Cr => l.cariage_return(),
        Op::So => l.shift_out(),
        Op::Si => l.shift_in(),
        Op::Ind => l.index(),
        Op::Ri => l.reverse_index(),
        Op::Hts => l.set_tab_stop(),
        Op::Sc => l.save_cursor(),
        Op::Rc => l.restore_cursor(),
        Op::Ris => l.reset(),
        Op::Aln => l.alignment_display(),
        Op::DefCharset(code, mode) => l.define_charset(code, mode),
        Op::Ich(n) => l.insert_characters(*n),
        Op::Cuu(n) => l.cursor_up(*n),
        Op::Cud(n) => l.cursor_down(*n),
        Op::Cuf(n) => l.cursor_forward(*n),
        Op::Cub(n) => l.cursor_back(*n),
        Op::Cnl(n) => l.cursor_down1(*n),
        Op::Cpl(n) => l.cursor_up1(*n),
        Op::Cha(n) => l.cursor_to_column(*n),
        Op::Cup(a, b) => l.cursor_position(*a, *b),
        Op::Vpa(n) => l.cursor_to_line(*n),
        Op::Ed(n, p) => l.erase_in_display(*n, *p),
        Op::El(n, p) => l.erase_in_line(*n, *p),
        Op::Il(n) => l.insert_lines(*n),
        Op::Dl(n) => l.delete_lines(*n),
        Op::Dch(n) => l.delete_characters(*n),
        Op::Ech(n) => l.erase_characters(*n),
        Op::Da(n, p) => l.report_device_attributes(*n, *p),
        Op::Tbc(n) => l.clear_tab_stop(*n),
        Op::Sm(ms, p) => l.set_mode(ms, *p),
        Op::Rm(ms, p) => l.reset_mode(ms, *p),
        Op::Sgr(ms) => l.select_graphic_rendition(ms),
        Op::Title(t) => l.set_title(t),
        Op::Icon(t) => l.set_icon_name(t),
        Op::Stbm(a, b) => l.set_margins(*a, *b),
        Op::Display => {
            l.display();
        }
        _ => return false,
    }
    true
}

#[derive(Clone, Debug, PartialEq, Eq, Hash, Serialize, Deserialize)]
pub struct Case {
    pub cols: u32,
    pub lines: u32,
    pub ops: Vec<Op>,
}

impl Case {
    /// compact human-readable rendering for evidence samples and replay files
    pub fn pretty(&self) -> String {
        let ops: Vec<String> = self.ops.iter().map(pretty_op).collect();
        format!("{}x{}: {}", self.cols, self.lines, ops.join(" · "))
    }
}

pub fn pretty_op(op: &Op) -> String {
    match op {
        Op::FeedBytes(b) => format!("FeedBytes({})", pretty_bytes(b)),
        other => format!("{:?}", other),
    }
}

pub fn pretty_bytes(b: &[u8]) -> String {
    let mut s = String::from("b\"");
    for &c in b {
        match c {
            b'"' => s.push_str("\\\""),
            b'\\' => s.push_str("\\\\"),
            0x20..=0x7e => s.push(c as char),
            _ => s.push_str(&format!("\\x{:02x}", c)),
        }
    }
    s.push('"');
    s
}
