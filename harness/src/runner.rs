//! Driver: proptest glue (seeded, no persistence), worker threads, shrinking, replay files,
//! known findings, evidence.

use std::collections::BTreeMap;
use std::io::Write;
use std::sync::atomic::{AtomicUsize, Ordering};
use std::sync::{Arc, Mutex};
use std::time::Instant;

use proptest::prelude::*;
use proptest::test_runner::{Config, FileFailurePersistence, RngAlgorithm, RngSeed, TestError, TestRunner};
use serde_json::json;

use crate::engine::{CaseResult, Failure, Stats};
use crate::ops::{Case, Op};
use crate::src::Src;

#[derive(Clone, Copy, PartialEq, Eq, Debug)]
pub enum Tier {
    Quick,
    Thorough,
}

pub type RunFn = Arc<dyn Fn(&Case) -> CaseResult + Send + Sync>;
pub type DecodeFn = Arc<dyn Fn(&mut Src) -> Case + Send + Sync>;
pub type ShardFn = Arc<dyn Fn(usize, Tier, &mut Acc) + Send + Sync>;

pub enum SubKind {
    /// generated search: proptest over byte vectors decoded into cases
    Gen { decode: DecodeFn, run: RunFn, cases: (u64, u64), max_bytes: usize },
    /// exhaustive enumeration of a finite sub-domain, split into shards
    Exh { shards: (usize, usize), shard: ShardFn },
}

pub struct Sub {
    pub name: &'static str,
    pub kind: SubKind,
    /// the runner used to replay a case of this sub-check
    pub replay: RunFn,
}

pub struct Spec {
    pub id: &'static str,
    pub rule: &'static str,
    pub assumptions: Vec<&'static str>,
    pub subs: Vec<Sub>,
}

// ------------------------------------------------------------------------------------------
// known findings

#[derive(Clone, Debug, Default)]
pub struct Known {
    /// (property, signature, description)
    pub entries: Vec<(String, String, String)>,
}

impl Known {
    pub fn load(path: &str) -> Known {
        let mut k = Known::default();
        if let Ok(text) = std::fs::read_to_string(path) {
            for line in text.lines() {
                let line = line.trim();
                // known-finding: property=C07 sig=<signature> <what fails>
                if let Some(rest) = line.strip_prefix("known-finding:") {
                    let mut prop = String::new();
                    let mut sig = String::new();
                    let mut desc = Vec::new();
                    for tok in rest.split_whitespace() {
                        if let Some(p) = tok.strip_prefix("property=") {
                            prop = p.to_string();
                        } else if let Some(s) = tok.strip_prefix("sig=") {
                            sig = s.to_string();
                        } else {
                            desc.push(tok);
                        }
                    }
                    if !prop.is_empty() && !sig.is_empty() {
                        k.entries.push((prop, sig, desc.join(" ")));
                    }
                }
            }
        }
        k
    }
    pub fn matches(&self, f: &Failure) -> Option<&(String, String, String)> {
        self.entries.iter().find(|e| e.0 == f.property && e.1 == f.sig)
    }
}

// ------------------------------------------------------------------------------------------
// accumulator shared by generated and exhaustive sub-checks

pub struct Acc {
    pub target: String,
    pub stats: Stats,
    pub failure: Option<(Case, Failure)>,
    pub known_hits: BTreeMap<String, u64>,
    pub known: Arc<Known>,
}

impl Acc {
    pub fn new(target: &str, known: Arc<Known>) -> Acc {
        Acc { target: target.to_string(), stats: Stats::default(), failure: None, known_hits: BTreeMap::new(), known }
    }
    pub fn failed(&self) -> bool {
        self.failure.is_some()
    }
    /// returns the first unknown failure of the target property, if any
    pub fn absorb(&mut self, case: &Case, res: CaseResult) -> Option<Failure> {
        self.stats.merge(res.stats);
        let mut first = None;
        for f in res.fails {
            if f.property != self.target && self.target != "*" {
                *self.stats.foreign.entry(format!("{}:{}", f.property, f.kind)).or_insert(0) += 1;
                continue;
            }
            if let Some(k) = self.known.matches(&f) {
                *self.known_hits.entry(format!("property={} {} [{}]", k.0, k.2, k.1)).or_insert(0) += 1;
                continue;
            }
            if first.is_none() {
                first = Some(f);
            }
        }
        if let Some(f) = &first {
            if self.failure.is_none() {
                self.failure = Some((case.clone(), f.clone()));
            }
        }
        first
    }
    pub fn merge(&mut self, o: Acc) {
        self.stats.merge(o.stats);
        for (k, v) in o.known_hits {
            *self.known_hits.entry(k).or_insert(0) += v;
        }
        if self.failure.is_none() {
            self.failure = o.failure;
        }
    }
}

fn first_target_failure(res: &CaseResult, target: &str, known: &Known) -> Option<Failure> {
    res.fails
        .iter()
        .find(|f| (f.property == target || target == "*") && known.matches(f).is_none())
        .cloned()
}

/// structure-aware shrinking of a failing case: delete operations, shorten payloads, lower
/// numbers and geometry, while the same property still fails
pub fn shrink_case(case: &Case, run: &RunFn, target: &str, known: &Known) -> (Case, Failure) {
    // fewer attempts on big screens, where every attempt is expensive
    let cells = (case.cols as usize) * (case.lines as usize);
    let budget = (12_000_000 / ((cells + 300) * (case.ops.len() + 5))).clamp(100, 4000);
    shrink_case_budget(case, run, target, known, budget)
}

pub fn shrink_case_budget(case: &Case, run: &RunFn, target: &str, known: &Known, budget: usize) -> (Case, Failure) {
    let mut best = case.clone();
    let mut best_f = match first_target_failure(&run(&best), target, known) {
        Some(f) => f,
        None => {
            return (
                best,
                Failure {
                    property: target.into(),
                    kind: "flaky".into(),
                    step: 0,
                    op: String::new(),
                    detail: "failure did not reproduce when re-run".into(),
                    sig: format!("{}:flaky", target),
                },
            )
        }
    };
    let mut budget = budget;
    let try_case = |c: &Case, budget: &mut usize| -> Option<Failure> {
        if *budget == 0 {
            return None;
        }
        *budget -= 1;
        first_target_failure(&run(c), target, known)
    };
    loop {
        let mut progress = false;
        // truncate after the failing step
        if best_f.step + 1 < best.ops.len() {
            let mut c = best.clone();
            c.ops.truncate(best_f.step + 1);
            if let Some(f) = try_case(&c, &mut budget) {
                best = c;
                best_f = f;
                progress = true;
            }
        }
        // delete single operations (from the front)
        let mut i = 0;
        while i < best.ops.len() {
            let mut c = best.clone();
            c.ops.remove(i);
            if let Some(f) = try_case(&c, &mut budget) {
                best = c;
                best_f = f;
                progress = true;
            } else {
                i += 1;
            }
        }
        // simplify operations
        for i in 0..best.ops.len() {
            for cand in simpler_ops(&best.ops[i]) {
                let mut c = best.clone();
                c.ops[i] = cand;
                if let Some(f) = try_case(&c, &mut budget) {
                    best = c;
                    best_f = f;
                    progress = true;
                    break;
                }
            }
        }
        // smaller geometry
        for (dc, dl) in [(1u32, 0u32), (0, 1)] {
            if best.cols > dc && best.lines > dl && (best.cols - dc >= 1) && (best.lines - dl >= 1) {
                let mut c = best.clone();
                c.cols -= dc;
                c.lines -= dl;
                if c.cols >= 1 && c.lines >= 1 && (dc + dl) > 0 {
                    if let Some(f) = try_case(&c, &mut budget) {
                        best = c;
                        best_f = f;
                        progress = true;
                    }
                }
            }
        }
        if !progress || budget == 0 {
            break;
        }
    }
    (best, best_f)
}

fn simpler_ops(op: &Op) -> Vec<Op> {
    let mut v = Vec::new();
    match op {
        Op::FeedStr(s) if s.chars().count() > 1 => {
            let cs: Vec<char> = s.chars().collect();
            v.push(Op::FeedStr(cs[..cs.len() / 2].iter().collect()));
            v.push(Op::FeedStr(cs[cs.len() / 2..].iter().collect()));
            for i in 0..cs.len().min(24) {
                let mut c = cs.clone();
                c.remove(i);
                v.push(Op::FeedStr(c.into_iter().collect()));
            }
        }
        Op::FeedBytes(b) if b.len() > 1 => {
            v.push(Op::FeedBytes(b[..b.len() / 2].to_vec()));
            v.push(Op::FeedBytes(b[b.len() / 2..].to_vec()));
            for i in 0..b.len().min(24) {
                let mut c = b.clone();
                c.remove(i);
                v.push(Op::FeedBytes(c));
            }
        }
        Op::Draw(s) if s.chars().count() > 1 => {
            let cs: Vec<char> = s.chars().collect();
            for i in 0..cs.len() {
                let mut c = cs.clone();
                c.remove(i);
                v.push(Op::Draw(c.into_iter().collect()));
            }
        }
        Op::Sgr(l) | Op::Sm(l, _) | Op::Rm(l, _) if l.len() > 1 => {
            for i in 0..l.len() {
                let mut c = l.clone();
                c.remove(i);
                v.push(match op {
                    Op::Sgr(_) => Op::Sgr(c),
                    Op::Sm(_, p) => Op::Sm(c, *p),
                    Op::Rm(_, p) => Op::Rm(c, *p),
                    _ => unreachable!(),
                });
            }
        }
        Op::Fill { rows, sparse } => {
            if *sparse {
                v.push(Op::Fill { rows: *rows, sparse: false });
            }
            if *rows != 0 {
                v.push(Op::Fill { rows: 0, sparse: *sparse });
            }
        }
        _ => {}
    }
    v
}

// ------------------------------------------------------------------------------------------
// output discipline: memterm prints to stdout; the contract lines go to the saved descriptor

static OUT_FD: AtomicUsize = AtomicUsize::new(1);

pub fn redirect_stdout() {
    unsafe {
        let saved = libc::dup(1);
        if saved < 0 {
            return;
        }
        let devnull = libc::open(b"/dev/null\0".as_ptr() as *const libc::c_char, libc::O_WRONLY);
        if devnull >= 0 {
            libc::dup2(devnull, 1);
            libc::close(devnull);
            OUT_FD.store(saved as usize, Ordering::SeqCst);
        }
    }
}

pub fn say(line: &str) {
    let fd = OUT_FD.load(Ordering::SeqCst) as i32;
    let mut buf = line.as_bytes().to_vec();
    buf.push(b'\n');
    unsafe {
        let mut off = 0;
        while off < buf.len() {
            let n = libc::write(fd, buf[off..].as_ptr() as *const libc::c_void, buf.len() - off);
            if n <= 0 {
                break;
            }
            off += n as usize;
        }
    }
    let _ = std::io::stderr().flush();
}

// ------------------------------------------------------------------------------------------

pub fn seed_for(base: u64, prop: &str, sub: &str, worker: usize) -> [u8; 32] {
    let mut h: u64 = 0xcbf29ce484222325 ^ base.wrapping_mul(0x9E3779B97F4A7C15);
    for b in prop.bytes().chain(sub.bytes()) {
        h = (h ^ b as u64).wrapping_mul(0x100000001b3);
    }
    h ^= (worker as u64).wrapping_mul(0xD6E8FEB86659FD93);
    let mut out = [0u8; 32];
    let mut x = h;
    for chunk in out.chunks_mut(8) {
        x ^= x >> 30;
        x = x.wrapping_mul(0xBF58476D1CE4E5B9);
        x ^= x >> 27;
        x = x.wrapping_mul(0x94D049BB133111EB);
        x ^= x >> 31;
        chunk.copy_from_slice(&x.to_le_bytes());
        x = x.wrapping_add(0x9E3779B97F4A7C15);
    }
    out
}

pub struct GenOutcome {
    pub acc: Acc,
}

/// one worker of a generated sub-check: proptest over byte vectors, stops at first failure,
/// shrinks (proptest on bytes, then structurally on the decoded case)
pub fn gen_worker(
    target: &str,
    sub: &str,
    decode: &DecodeFn,
    run: &RunFn,
    cases: u64,
    max_bytes: usize,
    seed: u64,
    worker: usize,
    known: Arc<Known>,
) -> Acc {
    let mut cfg = Config::default();
    cfg.cases = cases.min(u32::MAX as u64) as u32;
    cfg.failure_persistence = None::<Box<FileFailurePersistence>>.map(|b| b as Box<dyn proptest::test_runner::FailurePersistence>);
    cfg.max_shrink_iters = 600;
    cfg.rng_algorithm = RngAlgorithm::ChaCha;
    cfg.rng_seed = RngSeed::Fixed(0);
    let rng = proptest::test_runner::TestRng::from_seed(RngAlgorithm::ChaCha, &seed_for(seed, target, sub, worker));
    let mut runner = TestRunner::new_with_rng(cfg, rng);
    let acc = Mutex::new(Acc::new(target, known.clone()));
    let failed = std::sync::atomic::AtomicBool::new(false);
    let strat = proptest::collection::vec(any::<u8>(), 0..max_bytes);
    let result = runner.run(&strat, |bytes| {
        let mut src = Src::new(&bytes);
        let case = decode(&mut src);
        let res = run(&case);
        if failed.load(Ordering::SeqCst) {
            // shrinking phase: do not count, only decide
            return match first_target_failure(&res, target, &known) {
                Some(f) => Err(TestCaseError::fail(f.detail)),
                None => Ok(()),
            };
        }
        let mut a = acc.lock().unwrap();
        match a.absorb(&case, res) {
            Some(f) => {
                failed.store(true, Ordering::SeqCst);
                Err(TestCaseError::fail(f.detail))
            }
            None => Ok(()),
        }
    });
    let mut acc = acc.into_inner().unwrap();
    if let Err(TestError::Fail(_, bytes)) = result {
        let mut src = Src::new(&bytes);
        let case = decode(&mut src);
        let (c, f) = shrink_case(&case, run, target, &known);
        acc.failure = Some((c, f));
    } else if let Err(TestError::Abort(r)) = result {
        acc.stats.exclude(&format!("proptest-abort:{}", r));
    }
    acc
}

// ------------------------------------------------------------------------------------------
// worker processes
//
// Workers are forked child processes, each single-threaded: generator-rs swaps the global
// panic hook (take_hook / set_hook) whenever a coroutine is dropped, which is a data race
// between threads and would clobber the harness's own hook.  A child also isolates aborts
// and stack overflows, and lets the parent bound CPU time.

#[derive(serde::Serialize, serde::Deserialize, Default)]
pub struct AccOut {
    pub index: usize,
    pub stats: Stats,
    pub failure: Option<(Case, Failure)>,
    pub known_hits: BTreeMap<String, u64>,
}

impl AccOut {
    fn of(index: usize, a: Acc) -> AccOut {
        AccOut { index, stats: a.stats, failure: a.failure, known_hits: a.known_hits }
    }
}

pub enum WorkerEnd {
    Done(Vec<AccOut>),
    /// killed by a signal / abnormal exit: (worker, description, last case it was running)
    Crashed(usize, String, Option<Case>),
}

fn tmp_dir() -> String {
    let d = format!("{}/harness/target/mtv-tmp", std::env::var("VERIF_DIR").unwrap_or_else(|_| "/verif".into()));
    let _ = std::fs::create_dir_all(&d);
    d
}

thread_local! {
    static CURRENT_CASE_FILE: std::cell::RefCell<Option<String>> = std::cell::RefCell::new(None);
}

/// C01 children record the case they are about to run, so that an abort, a stack overflow or
/// a CPU-limit kill can be attributed to its input.
pub fn note_current_case(case: &Case) {
    CURRENT_CASE_FILE.with(|f| {
        if let Some(p) = f.borrow().as_ref() {
            if let Ok(t) = serde_json::to_vec(case) {
                let _ = std::fs::write(p, t);
            }
        }
    });
}

/// shared counter for dynamic shard distribution among forked workers
struct SharedCounter(*mut AtomicUsize);
unsafe impl Send for SharedCounter {}
unsafe impl Sync for SharedCounter {}
impl SharedCounter {
    fn new() -> SharedCounter {
        unsafe {
            let p = libc::mmap(
                std::ptr::null_mut(),
                4096,
                libc::PROT_READ | libc::PROT_WRITE,
                libc::MAP_SHARED | libc::MAP_ANONYMOUS,
                -1,
                0,
            );
            assert!(p != libc::MAP_FAILED, "mmap failed");
            let a = p as *mut AtomicUsize;
            (*a).store(0, Ordering::SeqCst);
            SharedCounter(a)
        }
    }
    fn next(&self) -> usize {
        unsafe { (*self.0).fetch_add(1, Ordering::SeqCst) }
    }
}

/// fork `n` workers; each runs `f(worker)` and returns its accumulators through a file
pub fn fork_workers(
    n: usize,
    cpu_limit_s: u64,
    wall_limit_s: u64,
    track_current: bool,
    f: &(dyn Fn(usize) -> Vec<AccOut> + Sync),
) -> Vec<WorkerEnd> {
    fork_workers_opt(n, cpu_limit_s, wall_limit_s, track_current, 10_000, false, f)
}

/// `stall_ms`: no CPU progress for this long means blocked for good; `kill_on_crash`: once one
/// worker died abnormally the others are stopped (the search ends at the first failure anyway)
pub fn fork_workers_opt(
    n: usize,
    cpu_limit_s: u64,
    wall_limit_s: u64,
    track_current: bool,
    stall_ms: u64,
    kill_on_crash: bool,
    f: &(dyn Fn(usize) -> Vec<AccOut> + Sync),
) -> Vec<WorkerEnd> {
    let dir = tmp_dir();
    let tag = format!("{}-{}", std::process::id(), {
        static N: AtomicUsize = AtomicUsize::new(0);
        N.fetch_add(1, Ordering::SeqCst)
    });
    let mut pids = Vec::new();
    for w in 0..n {
        let out_path = format!("{}/out-{}-{}.json", dir, tag, w);
        let cur_path = format!("{}/cur-{}-{}.json", dir, tag, w);
        let _ = std::fs::remove_file(&out_path);
        let _ = std::fs::remove_file(&cur_path);
        let pid = unsafe { libc::fork() };
        if pid == 0 {
            // child
            unsafe {
                let lim = libc::rlimit { rlim_cur: cpu_limit_s, rlim_max: cpu_limit_s + 5 };
                libc::setrlimit(libc::RLIMIT_CPU, &lim);
            }
            if track_current {
                CURRENT_CASE_FILE.with(|c| *c.borrow_mut() = Some(cur_path.clone()));
            }
            let res = std::panic::catch_unwind(std::panic::AssertUnwindSafe(|| f(w)));
            let code = match res {
                Ok(outs) => {
                    let ok = serde_json::to_vec(&outs).ok().and_then(|t| std::fs::write(&out_path, t).ok()).is_some();
                    if ok { 0 } else { 3 }
                }
                Err(_) => 4, // the harness itself panicked
            };
            unsafe { libc::_exit(code) };
        }
        pids.push((w, pid, out_path, cur_path));
    }
    let t0 = Instant::now();
    // poll all children: exit status, wall-clock watchdog, and stall detection (a worker is
    // CPU-bound by construction, so no CPU progress for STALL_S seconds means it is blocked
    // for good - e.g. a self-deadlock on a mutex inside the code under test)
    struct Live {
        w: usize,
        pid: i32,
        out_path: String,
        cur_path: String,
        status: i32,
        done: bool,
        timed_out: bool,
        stalled: bool,
        collateral: bool,
        last_cpu: u64,
        last_change: Instant,
    }
    let mut live: Vec<Live> = pids
        .into_iter()
        .map(|(w, pid, out_path, cur_path)| Live { w, pid, out_path, cur_path, status: 0, done: false, timed_out: false, stalled: false, collateral: false, last_cpu: 0, last_change: Instant::now() })
        .collect();
    let cpu_ticks = |pid: i32| -> Option<(u64, bool)> {
        let t = std::fs::read_to_string(format!("/proc/{}/stat", pid)).ok()?;
        let rest = &t[t.rfind(')')? + 2..];
        let f: Vec<&str> = rest.split_whitespace().collect();
        // a worker that is runnable but starved of CPU (R) or waiting for memory / disk (D) is
        // not blocked for good: only an interruptible sleep (S: futex wait) counts as no progress
        let sleeping = f.first().map_or(false, |st| *st == "S");
        Some((f.get(11)?.parse::<u64>().ok()? + f.get(12)?.parse::<u64>().ok()?, sleeping))
    };
    let mut polls = 0u64;
    let poll_every = (stall_ms / 50).clamp(1, 20);
    let mut crash_seen = false;
    while live.iter().any(|l| !l.done) {
        polls += 1;
        if kill_on_crash && crash_seen {
            for l in live.iter_mut().filter(|l| !l.done) {
                let mut status: i32 = 0;
                unsafe {
                    libc::kill(l.pid, libc::SIGKILL);
                    libc::waitpid(l.pid, &mut status, 0);
                }
                l.status = status;
                l.done = true;
                l.collateral = true;
            }
            break;
        }
        for l in live.iter_mut().filter(|l| !l.done) {
            let mut status: i32 = 0;
            let r = unsafe { libc::waitpid(l.pid, &mut status, libc::WNOHANG) };
            if r == l.pid {
                l.status = status;
                l.done = true;
                if !(libc::WIFEXITED(status) && libc::WEXITSTATUS(status) == 0) {
                    crash_seen = true;
                }
                continue;
            }
            if r < 0 {
                l.status = -1;
                l.done = true;
                continue;
            }
            let mut kill = false;
            if t0.elapsed().as_secs() > wall_limit_s {
                l.timed_out = true;
                kill = true;
            } else if polls % poll_every == 0 {
                if let Some((c, sleeping)) = cpu_ticks(l.pid) {
                    if c != l.last_cpu || !sleeping {
                        l.last_cpu = c;
                        l.last_change = Instant::now();
                    } else if l.last_change.elapsed().as_millis() as u64 >= stall_ms {
                        l.stalled = true;
                        kill = true;
                    }
                }
            }
            if kill {
                unsafe {
                    libc::kill(l.pid, libc::SIGKILL);
                    libc::waitpid(l.pid, &mut status, 0);
                }
                l.status = status;
                l.done = true;
                crash_seen = true;
            }
        }
        std::thread::sleep(std::time::Duration::from_millis(5));
    }
    let mut ends = Vec::new();
    for l in live {
        let (w, status, timed_out, out_path, cur_path) = (l.w, l.status, l.timed_out, l.out_path, l.cur_path);
        let read_cur = || std::fs::read(&cur_path).ok().and_then(|t| serde_json::from_slice::<Case>(&t).ok());
        let exited_ok = !timed_out && !l.stalled && status != -1 && libc::WIFEXITED(status) && libc::WEXITSTATUS(status) == 0;
        if exited_ok {
            match std::fs::read(&out_path).ok().and_then(|t| serde_json::from_slice::<Vec<AccOut>>(&t).ok()) {
                Some(v) => ends.push(WorkerEnd::Done(v)),
                None => ends.push(WorkerEnd::Crashed(w, "harness: worker result unreadable".into(), None)),
            }
        } else {
            let what = if l.collateral {
                "harness-collateral: stopped because another worker died".to_string()
            } else if l.stalled {
                format!("stalled: blocked without consuming CPU for {} ms (deadlock)", stall_ms)
            } else if timed_out {
                format!("watchdog: no result after {} s wall clock (inconclusive)", wall_limit_s)
            } else if status != -1 && libc::WIFSIGNALED(status) {
                let sig = libc::WTERMSIG(status);
                let name = match sig {
                    libc::SIGSEGV => "SIGSEGV (stack overflow or memory fault)",
                    libc::SIGABRT => "SIGABRT (abort)",
                    libc::SIGXCPU => "SIGXCPU (CPU-time limit)",
                    libc::SIGBUS => "SIGBUS",
                    libc::SIGKILL => "SIGKILL",
                    _ => "signal",
                };
                format!("signal {} {}", sig, name)
            } else if status != -1 && libc::WIFEXITED(status) {
                format!("harness: worker exit status {}", libc::WEXITSTATUS(status))
            } else {
                "harness: waitpid failed".to_string()
            };
            ends.push(WorkerEnd::Crashed(w, what, read_cur()));
        }
        let _ = std::fs::remove_file(&out_path);
        let _ = std::fs::remove_file(&cur_path);
    }
    ends
}

/// run a sub-check on `threads` worker processes and merge in index order
pub fn run_sub(spec_id: &str, sub: &Sub, tier: Tier, seed: u64, threads: usize, known: Arc<Known>) -> Acc {
    let track = spec_id == "C01";
    let (cpu, wall) = if tier == Tier::Quick { (900, 1500) } else { (14_000, 20_000) };
    let ends = match &sub.kind {
        SubKind::Gen { decode, run, cases, max_bytes } => {
            let total = if tier == Tier::Quick { cases.0 } else { cases.1 };
            let per = (total + threads as u64 - 1) / threads as u64;
            let run_tracked: RunFn = if track {
                let r = run.clone();
                Arc::new(move |c: &Case| {
                    note_current_case(c);
                    r(c)
                })
            } else {
                run.clone()
            };
            let f = |w: usize| -> Vec<AccOut> {
                let a = gen_worker(spec_id, sub.name, decode, &run_tracked, per, *max_bytes, seed, w, known.clone());
                vec![AccOut::of(w, a)]
            };
            fork_workers_opt(threads, cpu, wall, track, 10_000, track, &f)
        }
        SubKind::Exh { shards, shard } => {
            let n = if tier == Tier::Quick { shards.0 } else { shards.1 };
            let counter = SharedCounter::new();
            let f = |_w: usize| -> Vec<AccOut> {
                let mut outs = Vec::new();
                loop {
                    let i = counter.next();
                    if i >= n {
                        break;
                    }
                    let mut acc = Acc::new(spec_id, known.clone());
                    shard(i, tier, &mut acc);
                    let stop = acc.failure.is_some();
                    outs.push(AccOut::of(i, acc));
                    if stop {
                        break;
                    }
                }
                outs
            };
            fork_workers(threads.min(n.max(1)), cpu, wall, track, &f)
        }
    };
    let mut acc = Acc::new(spec_id, known.clone());
    let mut outs: Vec<AccOut> = Vec::new();
    for e in ends {
        match e {
            WorkerEnd::Done(v) => outs.extend(v),
            WorkerEnd::Crashed(w, what, cur) => {
                if what.starts_with("harness") || what.starts_with("watchdog") {
                    acc.stats.exclude(&format!("worker {}: {} (harness)", w, what));
                } else if spec_id == "C01" {
                    // abort / stack overflow / CPU limit / deadlock inside memterm: attribute to
                    // the input the worker was running, re-run alone, shrink in isolation
                    if acc.failure.is_some() {
                        continue;
                    }
                    match cur {
                        Some(case) => {
                            // C01's replay runner is already the isolated one
                            let iso = sub.replay.clone();
                            let res = iso(&case);
                            if res.fails.iter().any(|f| f.property == "C01") {
                                let (c2, f2) = shrink_case_budget(&case, &iso, "C01", &known, 120);
                                acc.failure = Some((c2, f2));
                            } else {
                                acc.stats.exclude(&format!("worker {}: {} did not reproduce on the single case (harness)", w, what));
                            }
                        }
                        None => acc.stats.exclude(&format!("worker {}: {} with no current case (harness)", w, what)),
                    }
                } else {
                    acc.stats.exclude(&format!("worker {}: {} - a crash is C01's concern; this run is inconclusive (harness)", w, what));
                }
            }
        }
    }
    outs.sort_by_key(|o| o.index);
    for o in outs {
        let mut a = Acc::new(spec_id, known.clone());
        a.stats = o.stats;
        a.failure = o.failure;
        a.known_hits = o.known_hits;
        acc.merge(a);
    }
    if let SubKind::Exh { .. } = &sub.kind {
        if let Some((c, _)) = acc.failure.take() {
            let replay = sub.replay.clone();
            let (spec_id2, known2) = (spec_id.to_string(), known.clone());
            // shrink in a child as well (keeps the parent free of coroutines)
            let f = move |_w: usize| -> Vec<AccOut> {
                let (c2, f2) = shrink_case(&c, &replay, &spec_id2, &known2);
                vec![AccOut { index: 0, stats: Stats::default(), failure: Some((c2, f2)), known_hits: BTreeMap::new() }]
            };
            for e in fork_workers(1, cpu, wall, false, &f) {
                if let WorkerEnd::Done(mut v) = e {
                    if let Some(o) = v.pop() {
                        acc.failure = o.failure;
                    }
                }
            }
        }
    }
    acc
}

/// Wrap a runner so that every case runs alone in a forked child: aborts, stack overflows,
/// CPU-bound hangs (20 s CPU) and deadlocks (2 s without CPU progress) become failures.
pub fn isolated(run: RunFn) -> RunFn {
    Arc::new(move |case: &Case| {
        let case2 = case.clone();
        let run2 = run.clone();
        let f = move |_w: usize| -> Vec<AccOut> {
            let res = run2(&case2);
            vec![AccOut { index: 0, stats: res.stats, failure: res.fails.into_iter().next().map(|f| (case2.clone(), f)), known_hits: BTreeMap::new() }]
        };
        let mut stats = Stats::default();
        let mut fails = Vec::new();
        for e in fork_workers_opt(1, 20, 120, false, 2_000, false, &f) {
            match e {
                WorkerEnd::Done(v) => {
                    for o in v {
                        stats.merge(o.stats);
                        if let Some((_, f)) = o.failure {
                            fails.push(f);
                        }
                    }
                }
                WorkerEnd::Crashed(_, what, _) => {
                    if what.starts_with("harness") || what.starts_with("watchdog") {
                        stats.exclude(&format!("isolated run: {} (harness)", what));
                    } else {
                        let kind = if what.contains("SIGXCPU") {
                            "hang"
                        } else if what.starts_with("stalled") {
                            "deadlock"
                        } else {
                            "abort"
                        };
                        fails.push(Failure {
                            property: "C01".into(),
                            kind: kind.into(),
                            step: case.ops.len().saturating_sub(1),
                            op: case.ops.last().map(crate::ops::pretty_op).unwrap_or_default(),
                            detail: format!("processing this input does not return normally: {}", what),
                            sig: format!("C01:{}", kind),
                        });
                    }
                }
            }
        }
        CaseResult { fails, stats }
    })
}

/// Re-run a single case alone in a child under a 60 s CPU limit: does it still die?
#[allow(dead_code)]
fn crash_verdict(case: &Case, run: &RunFn, what: &str) -> Option<Failure> {
    let case2 = case.clone();
    let run2 = run.clone();
    let f = move |_w: usize| -> Vec<AccOut> {
        let res = run2(&case2);
        let mut a = Acc::new("C01", Arc::new(Known::default()));
        a.absorb(&case2, res);
        vec![AccOut::of(0, a)]
    };
    for e in fork_workers(1, 60, 300, false, &f) {
        match e {
            WorkerEnd::Done(v) => {
                return v.into_iter().next().and_then(|o| o.failure.map(|(_, f)| f));
            }
            WorkerEnd::Crashed(_, again, _) => {
                if again.starts_with("harness") || again.starts_with("watchdog") {
                    return None;
                }
                let kind = if again.contains("SIGXCPU") {
                    "hang"
                } else if again.starts_with("stalled") {
                    "deadlock"
                } else {
                    "abort"
                };
                return Some(Failure {
                    property: "C01".into(),
                    kind: kind.into(),
                    step: case.ops.len().saturating_sub(1),
                    op: String::new(),
                    detail: format!("processing this input alone ends with {} (first seen as {})", again, what),
                    sig: format!("C01:{}", kind),
                });
            }
        }
    }
    None
}

// ------------------------------------------------------------------------------------------
// replay files and evidence

pub fn write_replay(dir: &str, prop: &str, sub: &str, case: &Case, f: &Failure, seed: u64) -> String {
    let _ = std::fs::create_dir_all(dir);
    let h = crate::engine::hash_of(case);
    let path = format!("{}/{}-{}-{:016x}.json", dir, prop, sub, h);
    let v = json!({
        "property": prop,
        "sub": sub,
        "seed": seed,
        "case": case,
        "pretty": case.pretty(),
        "failing_step": f.step,
        "failing_op": f.op,
        "kind": f.kind,
        "signature": f.sig,
        "detail": f.detail,
    });
    let _ = std::fs::write(&path, serde_json::to_string_pretty(&v).unwrap());
    path
}

pub struct SubReport {
    pub name: String,
    pub exhaustive: bool,
    pub evaluations: u64,
    pub cases: u64,
    pub nontrivial: u64,
    pub wall_s: f64,
}

pub fn write_evidence(
    path: &str,
    spec: &Spec,
    tier: Tier,
    seed: u64,
    total: &Stats,
    subs: &[SubReport],
    known_hits: &BTreeMap<String, u64>,
    regressions: u64,
    violations: u64,
    wall_s: f64,
    extra: serde_json::Value,
) {
    let exhaustive_subs: Vec<&str> = subs.iter().filter(|s| s.exhaustive).map(|s| s.name.as_str()).collect();
    let v = json!({
        "property_id": spec.id,
        "tier": if tier == Tier::Quick { "quick" } else { "thorough" },
        "seed": seed,
        "level": "exploration",
        "coverage": {
            "evaluations": total.evaluations.max(total.cases),
            "cases": total.cases,
            "distinct_nontrivial": total.nontrivial.len(),
            "rule": spec.rule,
            "samples": total.samples,
            "exhaustive": false,
            "exhaustive_subdomains_completed": exhaustive_subs,
            "sub_checks": subs.iter().map(|s| json!({
                "name": s.name, "exhaustive_enumeration": s.exhaustive, "evaluations": s.evaluations,
                "cases": s.cases, "distinct_nontrivial": s.nontrivial, "wall_s": s.wall_s})).collect::<Vec<_>>(),
            "class_histogram": total.classes,
            "excluded_by_construction": total.excluded,
            "foreign_mismatches": total.foreign,
            "known_findings_hit": known_hits,
            "regression_replays": regressions,
            "extra": extra,
        },
        "assumptions": spec.assumptions,
        "wall_s": wall_s,
        "violations": violations,
    });
    if let Some(parent) = std::path::Path::new(path).parent() {
        let _ = std::fs::create_dir_all(parent);
    }
    let _ = std::fs::write(path, serde_json::to_string_pretty(&v).unwrap());
}

/// Run a whole property check.  Returns the process exit code.
pub fn run_check(spec: &Spec, tier: Tier, seed: u64, threads: usize, verif_dir: &str, only_sub: Option<&str>) -> i32 {
    let t0 = Instant::now();
    let known = Arc::new(Known::load(&format!("{}/known_findings.txt", verif_dir)));
    let mut total = Stats::default();
    let mut reports = Vec::new();
    let mut known_hits: BTreeMap<String, u64> = BTreeMap::new();
    let mut violations: Vec<(String, String)> = Vec::new();

    // regression replays first
    let mut regressions = 0u64;
    if let Ok(rd) = std::fs::read_dir(format!("{}/regressions", verif_dir)) {
        let mut files: Vec<_> = rd.filter_map(|e| e.ok()).map(|e| e.path()).collect();
        files.sort();
        for p in files {
            let text = match std::fs::read_to_string(&p) {
                Ok(t) => t,
                Err(_) => continue,
            };
            let v: serde_json::Value = match serde_json::from_str(&text) {
                Ok(v) => v,
                Err(_) => continue,
            };
            if v["property"].as_str() != Some(spec.id) {
                continue;
            }
            let subname = v["sub"].as_str().unwrap_or("");
            let case: Case = match serde_json::from_value(v["case"].clone()) {
                Ok(c) => c,
                Err(_) => continue,
            };
            let subname = subname.rsplit(':').next().unwrap_or(subname);
            let sub = spec.subs.iter().find(|s| s.name == subname).or(spec.subs.first());
            if let Some(sub) = sub {
                regressions += 1;
                let res = (sub.replay)(&case);
                let mut acc = Acc::new(spec.id, known.clone());
                if let Some(f) = acc.absorb(&case, res) {
                    let path = write_replay(&format!("{}/replays", verif_dir), spec.id, sub.name, &case, &f, seed);
                    say(&format!("regression {} fails again: {} at step {} ({}): {}", p.display(), f.kind, f.step, f.op, f.detail));
                    violations.push((path, f.detail));
                }
                for (k, v) in acc.known_hits {
                    *known_hits.entry(k).or_insert(0) += v;
                }
            }
        }
    }

    for sub in &spec.subs {
        if std::env::var("MTV_ONLY_FUZZ").is_ok() {
            break;
        }
        if let Some(o) = only_sub {
            if o != sub.name {
                continue;
            }
        }
        let ts = Instant::now();
        let acc = run_sub(spec.id, sub, tier, seed, threads, known.clone());
        let wall = ts.elapsed().as_secs_f64();
        let exhaustive = matches!(sub.kind, SubKind::Exh { .. });
        reports.push(SubReport {
            name: sub.name.to_string(),
            exhaustive: exhaustive && acc.failure.is_none(),
            evaluations: acc.stats.evaluations,
            cases: acc.stats.cases,
            nontrivial: acc.stats.nontrivial.len() as u64,
            wall_s: wall,
        });
        eprintln!(
            "[{} {}] {:>9} evaluations, {:>8} cases, {:>8} distinct non-trivial, {:.1}s{}",
            spec.id,
            sub.name,
            acc.stats.evaluations,
            acc.stats.cases,
            acc.stats.nontrivial.len(),
            wall,
            if acc.failure.is_some() { "  ** FAILURE **" } else { "" }
        );
        for (k, v) in &acc.known_hits {
            *known_hits.entry(k.clone()).or_insert(0) += v;
        }
        if let Some((case, f)) = &acc.failure {
            let path = write_replay(&format!("{}/replays", verif_dir), spec.id, sub.name, case, f, seed);
            say(&format!(
                "{} [{}] {} at step {} ({}): {}\n  minimal case: {}",
                spec.id,
                sub.name,
                f.kind,
                f.step,
                f.op,
                f.detail,
                case.pretty()
            ));
            violations.push((path, f.detail.clone()));
        }
        total.merge(acc.stats);
    }

    // thorough tier: bounded coverage-guided campaigns with the same oracles inside the targets
    let mut fuzz_report = json!(null);
    let mut fuzz_inconclusive: Vec<String> = Vec::new();
    if tier == Tier::Thorough && only_sub.is_none() && std::env::var("MTV_NO_FUZZ").is_err() {
        let out = crate::fuzzdrv::campaign(spec.id, seed, verif_dir);
        total.evaluations += out.executions;
        total.class("libfuzzer-executions");
        *total.classes.get_mut("libfuzzer-executions").unwrap() = out.executions;
        fuzz_report = out.report;
        fuzz_inconclusive = out.inconclusive;
        eprintln!("[{} libFuzzer] {} executions, {} oracle failures, {} inconclusive jobs", spec.id, out.executions, out.failures.len(), fuzz_inconclusive.len());
        let mut seen = false;
        for (path, case, f) in out.failures {
            if known.matches(&f).is_some() {
                *known_hits.entry(format!("property={} {}", f.property, f.sig)).or_insert(0) += 1;
                continue;
            }
            if seen {
                continue; // one shrunk report per campaign is enough
            }
            seen = true;
            // shrink through the replay runner of the matching sub-check (in a child process)
            let subname = path.rsplit('/').next().unwrap_or("").to_string();
            let which = if f.kind == "panic" && spec.id == "C01" { 0 } else { 0 };
            let _ = which;
            let sub = spec.subs.iter().find(|s| subname.contains(s.name)).or(spec.subs.first());
            let (c2, f2) = match sub {
                Some(sub) => {
                    let replay = sub.replay.clone();
                    let (id2, known2, case2) = (spec.id.to_string(), known.clone(), case.clone());
                    let fclone = f.clone();
                    let w = move |_w: usize| -> Vec<AccOut> {
                        let (c, fl) = shrink_case_budget(&case2, &replay, &id2, &known2, 1500);
                        let keep = if fl.kind == "flaky" { (case2.clone(), fclone.clone()) } else { (c, fl) };
                        vec![AccOut { index: 0, stats: Stats::default(), failure: Some(keep), known_hits: BTreeMap::new() }]
                    };
                    let mut r = None;
                    for e in fork_workers(1, 600, 900, false, &w) {
                        if let WorkerEnd::Done(mut v) = e {
                            r = v.pop().and_then(|o| o.failure);
                        }
                    }
                    r.unwrap_or((case.clone(), f.clone()))
                }
                None => (case.clone(), f.clone()),
            };
            let p2 = write_replay(&format!("{}/replays", verif_dir), spec.id, "gen-history", &c2, &f2, seed);
            let p2 = if sub.is_some() { p2 } else { path.clone() };
            say(&format!("{} [libFuzzer] {} at step {} ({}): {}\n  minimal case: {}", spec.id, f2.kind, f2.step, f2.op, f2.detail, c2.pretty()));
            violations.push((p2, f2.detail.clone()));
        }
    }

    for (k, n) in &known_hits {
        say(&format!("KNOWN-FINDING: {} (hit {} times)", k, n));
    }
    let harness_problem = !fuzz_inconclusive.is_empty() || total.excluded.keys().any(|k| k.contains("(harness)"));
    let wall = t0.elapsed().as_secs_f64();
    write_evidence(
        &format!("{}/evidence/{}.json", verif_dir, spec.id),
        spec,
        tier,
        seed,
        &total,
        &reports,
        &known_hits,
        regressions,
        violations.len() as u64,
        wall,
        json!({ "libfuzzer": fuzz_report, "libfuzzer_inconclusive": fuzz_inconclusive }),
    );
    for (path, _) in &violations {
        say(&format!("VIOLATION property={} replay={}", spec.id, path));
    }
    if !violations.is_empty() {
        1
    } else if harness_problem {
        for l in &fuzz_inconclusive {
            say(&format!("inconclusive: {}", l));
        }
        say("harness / infrastructure problem or inconclusive run (exit 2, not a violation)");
        2
    } else {
        say(&format!(
            "{} {}: held on everything explored ({} evaluations, {} distinct non-trivial, {:.1}s)",
            spec.id,
            if tier == Tier::Quick { "quick" } else { "thorough" },
            total.evaluations.max(total.cases),
            total.nontrivial.len(),
            wall
        ));
        0
    }
}
