//! Entry points of the libFuzzer targets (cargo-fuzz crate in /verif/fuzz) and the driver that
//! runs bounded campaigns in the thorough tier.  The semantic oracles live inside the targets.

use std::sync::Once;

use crate::engine::{install_panic_hook, run_stepper, CaseResult, Cfg, Failure};
use crate::gen::{self, Profile, Weights};
use crate::ops::{Case, Op};
use crate::relational::{run_c01, run_c02, run_c11};
use crate::runner::{redirect_stdout, write_replay};
use crate::src::Src;

static INIT: Once = Once::new();

fn init() {
    INIT.call_once(|| {
        redirect_stdout();
        install_panic_hook();
    });
}

fn target() -> String {
    std::env::var("MTV_FUZZ_TARGET").unwrap_or_else(|_| "*".into())
}

fn out_dir() -> String {
    std::env::var("MTV_FUZZ_OUT").unwrap_or_else(|_| "/verif/replays".into())
}

fn report(sub: &str, case: &Case, f: &Failure) -> ! {
    let path = write_replay(&out_dir(), &f.property, sub, case, f, 0);
    eprintln!("MTV-FUZZ-FAILURE property={} replay={} :: {} at step {}: {}", f.property, path, f.kind, f.step, f.detail);
    std::process::abort();
}

fn pick_failure(res: &CaseResult, t: &str) -> Option<Failure> {
    res.fails.iter().find(|f| t == "*" || f.property == t).cloned()
}

pub fn ops_profile() -> Profile {
    let mut p = Profile::base();
    p.geoms = crate::gen::GEOMS_FUZZ;
    p.max_ops = 40;
    p.w = Weights::uniform();
    p.w.raw = 6;
    p.w.resize = 5;
    p.w.display = 4;
    p
}

/// history decoded from the fuzz input; the oracle configuration is the one of the property's
/// own generated check (so a failure replays through `mtv replay`), "*" = everything
pub fn ops_case(data: &[u8]) -> (Case, Cfg) {
    let t = target();
    let mut src = Src::new(data);
    let case = gen::history(&mut src, &ops_profile());
    let cfg = if t == "*" {
        let mut c = Cfg::stepper("*");
        c.reveal = true;
        c.c10 = true;
        c.c15 = true;
        c
    } else {
        crate::props::cfg_for(&t)
    };
    (case, cfg)
}

fn sub_for(prop: &str, from_bytes: bool) -> &'static str {
    match (prop, from_bytes) {
        ("C01", true) => "fz_bytes:gen-stream",
        ("C01", false) => "fz_ops:gen-api",
        ("C02", _) => "fz_bytes:gen-chunking",
        ("C11", _) => "fz_bytes:gen-bytes",
        (_, true) => "fz_bytes:gen-history",
        (_, false) => "fz_ops:gen-history",
    }
}

pub fn fz_ops(data: &[u8]) {
    init();
    let (case, cfg) = ops_case(data);
    if cfg.target == "C01" {
        let r = run_c01(&case);
        if let Some(f) = pick_failure(&r, "C01") {
            report(sub_for("C01", false), &case, &f);
        }
        return;
    }
    let res = run_stepper(&case, &cfg);
    if let Some(f) = pick_failure(&res, &cfg.target) {
        report(sub_for(&f.property, false), &case, &f);
    }
}
/// raw bytes: two header bytes choose geometry, mode and chunking; the rest is the stream
pub fn bytes_case(data: &[u8]) -> Case {
    let h0 = data.first().cloned().unwrap_or(0);
    let h1 = data.get(1).cloned().unwrap_or(0);
    let stream = if data.len() > 2 { &data[2..] } else { &[][..] };
    let (cols, lines) = [(4u32, 3u32), (5, 4), (1, 1), (2, 2), (10, 4), (20, 6), (16, 4), (3, 3), (1, 5), (7, 1), (24, 3), (8, 5), (12, 7), (2, 9), (9, 2), (6, 6)][(h0 & 15) as usize];
    let mut ops = Vec::new();
    if h0 & 16 != 0 {
        ops.push(Op::SelCharset("@".into()));
    }
    // chunk sizes from a small LCG seeded by the header
    let mut x = (h1 as u32).wrapping_mul(2654435761).wrapping_add(h0 as u32);
    let mut pos = 0;
    let style = h1 & 3;
    while pos < stream.len() {
        x = x.wrapping_mul(1664525).wrapping_add(1013904223);
        let n = match style {
            0 => stream.len(),
            1 => 1,
            2 => 1 + (x >> 24) as usize % 7,
            _ => (x >> 24) as usize % 40,
        };
        let end = (pos + n).min(stream.len());
        ops.push(Op::FeedBytes(stream[pos..end].to_vec()));
        pos = end;
        if h0 & 32 != 0 && (x >> 16) & 3 == 0 {
            ops.push(Op::Display);
        }
    }
    Case { cols, lines, ops }
}

pub fn fz_bytes(data: &[u8]) {
    init();
    let t = target();
    let case = bytes_case(data);
    let wants = |p: &str| t == "*" || t == p;
    if wants("C01") {
        let r = run_c01(&case);
        if let Some(f) = pick_failure(&r, "C01") {
            report(sub_for("C01", true), &case, &f);
        }
    }
    if wants("C02") {
        let c = Case { cols: case.cols, lines: case.lines, ops: case.ops.iter().filter(|o| !matches!(o, Op::Display)).cloned().collect() };
        let r = run_c02(&c);
        if let Some(f) = pick_failure(&r, "C02") {
            report(sub_for("C02", true), &c, &f);
        }
    }
    if wants("C11") {
        let c = Case { cols: 1, lines: 1, ops: case.ops.iter().filter(|o| !matches!(o, Op::Display)).cloned().collect() };
        let r = run_c11(&c);
        if let Some(f) = pick_failure(&r, "C11") {
            report(sub_for("C11", true), &c, &f);
        }
    }
    if !matches!(t.as_str(), "C01" | "C02" | "C11") {
        let cfg = if t == "*" {
            let mut c = Cfg::stepper("*");
            c.c10 = true;
            c
        } else {
            crate::props::cfg_for(&t)
        };
        let r = run_stepper(&case, &cfg);
        if let Some(f) = pick_failure(&r, &t) {
            report(sub_for(&f.property, true), &case, &f);
        }
    }
}
