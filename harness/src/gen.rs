//! Generators: histories, texts, escape-sequence streams, chunkings.  All of them are pure
//! functions of a `Src` (construction, never rejection).

use crate::ops::{Case, Op, N};
use crate::src::Src;

pub const GEOMS_SMALL: &[(u32, u32, u32)] = &[
    // cols, lines, weight
    (4, 3, 5),
    (5, 4, 6),
    (3, 3, 4),
    (2, 2, 3),
    (1, 1, 1),
    (1, 4, 2),
    (6, 1, 2),
    (8, 5, 4),
    (10, 4, 4),
    (20, 6, 2),
    (9, 3, 2),
];

/// geometries for the coverage-guided targets (instrumented builds are slow on huge screens)
pub const GEOMS_FUZZ: &[(u32, u32, u32)] = &[
    (4, 3, 5),
    (5, 4, 6),
    (3, 3, 4),
    (2, 2, 3),
    (1, 1, 2),
    (1, 4, 2),
    (6, 1, 2),
    (8, 5, 4),
    (10, 4, 4),
    (20, 6, 2),
    (40, 4, 1),
    (17, 2, 2),
];

/// wide and tall screens (masks, column numbers above 127, the 132-column width)
pub const GEOMS_LARGE: &[(u32, u32, u32)] = &[
    (80, 24, 4),
    (132, 24, 3),
    (140, 40, 2),
    (70, 33, 2),
    (100, 12, 2),
    (40, 40, 2),
    (129, 2, 1),
    (131, 5, 1),
    (133, 3, 1),
    (65, 34, 1),
];

/// just beyond the parameter cap of 9999 (one dimension only, to keep snapshots affordable)
pub const GEOMS_HUGE: &[(u32, u32, u32)] = &[(10_001, 1, 2), (10_050, 2, 1), (1, 10_001, 1), (2, 10_003, 1), (9_999, 1, 1), (10_000, 1, 1)];

pub const GEOMS_ALL: &[(u32, u32, u32)] = &[
    (4, 3, 5),
    (5, 4, 6),
    (3, 3, 4),
    (2, 2, 3),
    (1, 1, 2),
    (1, 4, 2),
    (6, 1, 2),
    (8, 5, 4),
    (10, 4, 4),
    (20, 6, 3),
    (80, 24, 2),
    (132, 24, 1),
    (140, 40, 1),
    (17, 2, 2),
];

#[derive(Clone, Debug)]
pub struct Weights {
    pub draw: u32,
    pub cursor: u32,
    pub scroll: u32,
    pub erase: u32,
    pub sgr: u32,
    pub mode: u32,
    pub edit: u32,
    pub save: u32,
    pub ris: u32,
    pub resize: u32,
    pub tabs: u32,
    pub osc: u32,
    pub charset: u32,
    pub display: u32,
    pub misc: u32,
    pub raw: u32,
}

impl Weights {
    pub fn uniform() -> Weights {
        Weights {
            draw: 10,
            cursor: 10,
            scroll: 8,
            erase: 6,
            sgr: 5,
            mode: 6,
            edit: 6,
            save: 4,
            ris: 1,
            resize: 3,
            tabs: 4,
            osc: 2,
            charset: 3,
            display: 2,
            misc: 2,
            raw: 0,
        }
    }
    fn as_vec(&self) -> Vec<u32> {
        vec![
            self.draw,
            self.cursor,
            self.scroll,
            self.erase,
            self.sgr,
            self.mode,
            self.edit,
            self.save,
            self.ris,
            self.resize,
            self.tabs,
            self.osc,
            self.charset,
            self.display,
            self.misc,
            self.raw,
        ]
    }
}

#[derive(Clone, Debug)]
pub struct Profile {
    pub geoms: &'static [(u32, u32, u32)],
    pub max_ops: u32,
    pub w: Weights,
    /// chance (of 256) that a listener operation is sent as an escape sequence through a parser
    pub via_parser: u32,
    /// chance (of 256) that the history starts with a marker fill
    pub fill: u32,
    /// 0 = Parser (chars), 1 = ByteParser UTF-8, 2 = ByteParser 8-bit, 3 = chosen per case
    pub parser_kind: u32,
    /// chance (of 256) that a parser-fed sequence is cut into several feed() calls
    pub chunk: u32,
    /// allow DECCOLM (132-column switch; expensive)
    pub deccolm: bool,
    /// chance (of 256), per operation, that a truncated multi-byte character is fed first (ByteParser UTF-8)
    pub tail: u32,
}

impl Profile {
    pub fn base() -> Profile {
        Profile {
            geoms: GEOMS_SMALL,
            max_ops: 24,
            w: Weights::uniform(),
            via_parser: 64,
            fill: 128,
            parser_kind: 3,
            chunk: 64,
            deccolm: true,
            tail: 3,
        }
    }
}

pub fn geometry(src: &mut Src, geoms: &[(u32, u32, u32)]) -> (u32, u32) {
    let w: Vec<u32> = geoms.iter().map(|g| g.2).collect();
    let g = geoms[src.weighted(&w)];
    (g.0, g.1)
}

/// numeric argument: {absent, 0, 1, 2, size-1, size, size+1, size+2, 9999} hot, else uniform
pub fn num(src: &mut Src, size: u32) -> N {
    match src.weighted(&[14, 10, 16, 10, 8, 8, 6, 4, 5, 14, 5]) {
        0 => None,
        1 => Some(0),
        2 => Some(1),
        3 => Some(2),
        4 => Some(size.saturating_sub(1)),
        5 => Some(size),
        6 => Some(size + 1),
        7 => Some(size + 2),
        8 => Some(9999),
        9 => Some(src.range(0, size + 3)),
        _ => Some(src.range(0, 9999)),
    }
}

pub const NARROW: &[char] = &[
    'a', 'b', 'c', 'x', 'Z', '~', ' ', '0', '_', 'q', '\u{a1}', '\u{e9}', '\u{ff}', '\u{416}',
    '\u{3a9}', '\u{2502}', '\u{2588}', '\u{fffd}', '\u{100}', '\u{101}', '\u{a0}', '\u{fe}',
    // spacing combining marks: marks, but with display width 1, so they take a cell
    '\u{903}', '\u{93e}', '\u{bbf}',
];
pub const WIDE: &[char] = &[
    '\u{4e2d}', '\u{6587}', '\u{ff21}', '\u{d55c}', '\u{3042}', '\u{1f600}',
    // first / last code points of double-width ranges
    '\u{1100}', '\u{115f}', '\u{2e80}', '\u{3041}', '\u{ac00}', '\u{d7a3}', '\u{f900}', '\u{ff01}', '\u{ff60}',
    '\u{ffe0}', '\u{1f300}', '\u{20000}', '\u{3fffd}', '\u{ff15}',
];
/// narrow characters chosen by property rather than by script: changed by NFC, numeric but not
/// an ASCII digit, or with a low byte equal to a syntactically significant ASCII byte (so that
/// a truncating cast turns them into BEL, CAN, ESC, a digit, `;`, `?`, `[`, `\`, `]`, CSI ...)
pub const ODD_NARROW: &[char] = &[
    '\u{2126}', '\u{212a}', '\u{212b}', '\u{37e}', '\u{2000}', '\u{2001}', '\u{1f71}', '\u{663}', '\u{2460}',
    '\u{b2}', '\u{bd}', '\u{969}', '\u{107}', '\u{118}', '\u{11a}', '\u{11b}', '\u{130}', '\u{131}', '\u{132}',
    '\u{139}', '\u{13b}', '\u{13f}', '\u{15b}', '\u{15c}', '\u{15d}', '\u{19b}', '\u{19c}', '\u{19d}', '\u{10a}',
    '\u{10d}', '\u{120}', '\u{124}', '\u{13e}', '\u{171}', '\u{148}',
    // the one character unicode-width reports as three cells wide
    '\u{17d8}',
];
pub const COMBINING: &[char] = &['\u{301}', '\u{308}', '\u{20dd}', '\u{e31}', '\u{fe0f}'];
pub const ZERO: &[char] = &['\u{200b}', '\u{200d}', '\u{feff}', '\u{2060}'];
/// unprintable characters that are not special to the recogniser
pub const UNPRINT: &[char] = &['\u{0}', '\u{1}', '\u{7f}', '\u{18}', '\u{1a}', '\u{80}', '\u{85}', '\u{9f}'];

pub fn text_char(src: &mut Src) -> char {
    match src.weighted(&[52, 16, 12, 5, 6, 6]) {
        0 => *src.pick(NARROW),
        1 => *src.pick(WIDE),
        2 => *src.pick(COMBINING),
        3 => *src.pick(ZERO),
        4 => *src.pick(UNPRINT),
        _ => *src.pick(ODD_NARROW),
    }
}

/// lengths around powers of two (buffer sizes, fast-path thresholds, bit-mask widths)
pub const LONG_LENGTHS: &[u32] = &[15, 16, 17, 31, 32, 33, 63, 64, 65, 100, 127, 128, 129, 150, 255, 256, 257];

/// a long run of plain narrow characters
pub fn long_run(src: &mut Src) -> String {
    let mut n = *src.pick(LONG_LENGTHS) as usize;
    if src.chance(20) {
        // rarely much longer (title / payload limits at 1 K, 4 K)
        n = *src.pick(&[511usize, 512, 513, 1023, 1024, 1025, 2048, 4095, 4096, 4097]);
    }
    let pat: &[char] = src.pick::<&[char]>(&[
        &['a'],
        &['a', 'b', 'c', 'd', 'e', 'f', 'g'],
        &['x', ' '],
        &['0', '1', ';', '2'],
        &['\u{e9}', 'z'],
        &['\u{301}'],
        &['\u{308}', '\u{301}', '\u{20dd}'],
        &['\u{feff}', 'a'],
    ]);
    let lead = if pat[0] == '\u{301}' || pat[0] == '\u{308}' { "o" } else { "" };
    let body: String = (0..n).map(|i| pat[i % pat.len()]).collect();
    format!("{}{}", lead, body)
}

pub fn text(src: &mut Src, max: u32) -> String {
    if src.chance(10) {
        return long_run(src);
    }
    let n = 1 + src.below(max.max(1));
    (0..n).map(|_| text_char(src)).collect()
}

/// text without characters that are special for the recogniser or unprintable (for titles)
pub fn plain_text(src: &mut Src, max: u32) -> String {
    if src.chance(12) {
        return long_run(src);
    }
    let n = src.below(max + 1);
    (0..n)
        .map(|_| {
            *src.pick(&[
                'a', 'b', 'z', ' ', ';', '\\', ']', '[', '0', '7', ':', '/', '\u{e9}', '\u{4e2d}',
                '\u{416}', '~', '"',
            ])
        })
        .collect()
}

const SGR_DOC: &[u32] = &[
    0, 1, 3, 4, 5, 7, 9, 22, 23, 24, 25, 27, 29, 30, 31, 32, 33, 34, 35, 36, 37, 39, 40, 41, 42,
    43, 44, 45, 46, 47, 49, 90, 91, 92, 93, 94, 95, 96, 97, 100, 101, 102, 103, 104, 105, 106, 107,
];

pub fn sgr_list(src: &mut Src) -> Vec<u32> {
    let mut n = src.weighted(&[2, 10, 8, 5, 3, 2, 1, 1, 1]);
    if n == 8 {
        n = *src.pick(&[15usize, 16, 17, 31, 32, 33, 40, 64, 65]);
    }
    let mut out = Vec::new();
    for _ in 0..n {
        match src.weighted(&[10, 4, 4, 2, 2]) {
            0 => out.push(*src.pick(SGR_DOC)),
            1 => {
                out.push(*src.pick(&[38u32, 48]));
                out.push(5);
                out.push(match src.weighted(&[4, 2, 2, 1, 1, 1]) {
                    0 => src.range(0, 255),
                    1 => src.range(0, 15),
                    2 => src.range(16, 231),
                    3 => 255,
                    4 => 256,
                    _ => src.range(257, 9999),
                });
            }
            2 => {
                out.push(*src.pick(&[38u32, 48]));
                out.push(2);
                for _ in 0..3 {
                    out.push(*src.pick(&[0u32, 1, 127, 255, 256, 300, 9999, 18, 52]));
                }
            }
            3 => {
                // truncated / malformed extended form
                out.push(*src.pick(&[38u32, 48]));
                let k = src.below(4);
                let sel = *src.pick(&[5u32, 2, 0, 1, 3, 9]);
                if k > 0 {
                    out.push(sel);
                }
                for _ in 1..k {
                    out.push(*src.pick(&[1u32, 4, 7, 9, 31, 44, 200, 255, 300]));
                }
            }
            _ => out.push(src.range(0, 9999)),
        }
    }
    out
}

pub fn mode_list(src: &mut Src, deccolm: bool) -> (Vec<u32>, bool) {
    let private = src.chance(140);
    let n = 1 + src.weighted(&[10, 3, 1]) as u32;
    let mut out = Vec::new();
    for _ in 0..n {
        let m = if private {
            *src.pick(&[5u32, 6, 7, 25, 3, 1, 2, 4, 20, 12, 1000, 1049, 2004, 0, 9999])
        } else {
            *src.pick(&[4u32, 20, 160, 192, 224, 800, 96, 3, 5, 6, 7, 25, 1, 2, 12, 0, 9999, 128, 64])
        };
        let is_colm = (private && m == 3) || (!private && m == 96);
        if is_colm && !deccolm {
            out.push(4);
        } else {
            out.push(m);
        }
    }
    (out, private)
}

/// One listener-level operation of the given group (may produce a short compound).
fn group_ops(src: &mut Src, g: usize, cols: u32, lines: u32, p: &Profile, out: &mut Vec<Op>) {
    match g {
        0 => {
            let mut t = text(src, 6);
            if src.chance(10) {
                // through the API any character may be drawn, also the ones a parser would interpret
                t.push(*src.pick(&['\x1b', '\x07', '\x08', '\x0a', '\x0d', '\x0e', '\x0f', '\u{9b}', '\u{9c}', '\u{9d}']));
                t.push('k');
            }
            out.push(Op::Draw(t));
        }
        1 => match src.below(14) {
            0 => out.push(Op::Cuu(num(src, lines))),
            1 => out.push(Op::Cud(num(src, lines))),
            2 => out.push(Op::Cuf(num(src, cols))),
            3 => out.push(Op::Cub(num(src, cols))),
            4 => out.push(Op::Cnl(num(src, lines))),
            5 => out.push(Op::Cpl(num(src, lines))),
            6 => out.push(Op::Cha(num(src, cols))),
            7 => out.push(Op::Vpa(num(src, lines))),
            8 | 9 => out.push(Op::Cup(num(src, lines), num(src, cols))),
            10 => out.push(Op::Bs),
            11 => out.push(Op::Cr),
            _ => {
                // drive the cursor into the pending-wrap column
                out.push(Op::Cup(num(src, lines), Some(cols)));
                out.push(Op::Draw(src.pick(NARROW).to_string()));
            }
        },
        2 => match src.below(9) {
            0 => out.push(Op::Ind),
            1 | 2 => out.push(Op::Lf),
            3 => out.push(Op::Ri),
            4 => out.push(Op::Il(num(src, lines))),
            5 => out.push(Op::Dl(num(src, lines))),
            _ => {
                if src.chance(170) {
                    // a plausible region
                    let t = src.range(1, lines);
                    let b = src.range(t, lines + 1);
                    out.push(Op::Stbm(Some(t), Some(b)));
                } else {
                    out.push(Op::Stbm(num(src, lines), num(src, lines)));
                }
            }
        },
        3 => {
            let sel = |src: &mut Src| -> N {
                *src.pick(&[None, Some(0), Some(1), Some(2), Some(3), Some(4), Some(5), Some(9999)])
            };
            let private = *src.pick(&[None, None, None, Some(false), Some(true)]);
            match src.below(3) {
                0 => out.push(Op::Ed(sel(src), private)),
                1 => out.push(Op::El(sel(src), private)),
                _ => out.push(Op::Ech(num(src, cols))),
            }
        }
        4 => out.push(Op::Sgr(sgr_list(src))),
        5 => {
            let (l, private) = mode_list(src, p.deccolm);
            if src.chance(150) {
                out.push(Op::Sm(l, private));
            } else {
                out.push(Op::Rm(l, private));
            }
        }
        6 => {
            if src.chance(128) {
                out.push(Op::Ich(num(src, cols)));
            } else {
                out.push(Op::Dch(num(src, cols)));
            }
        }
        7 => match src.weighted(&[10, 10, 2, 1]) {
            0 => out.push(Op::Sc),
            1 => out.push(Op::Rc),
            2 => {
                // deep stacks: a burst of saves (around powers of two)
                // the very deep stacks only in the long-history sub-checks (snapshots of the
                // whole stack at every step make them expensive)
                let k = if p.max_ops >= 100 && src.chance(40) {
                    *src.pick(&[128u32, 255, 256, 257, 1023, 1024, 1025])
                } else {
                    *src.pick(&[2u32, 3, 7, 8, 9, 15, 16, 17, 31, 32, 33, 64, 65])
                };
                for _ in 0..k {
                    out.push(Op::Sc);
                }
            }
            _ => {
                let k = *src.pick(&[2u32, 3, 8, 16, 17]);
                for _ in 0..k {
                    out.push(Op::Rc);
                }
            }
        },
        8 => out.push(Op::Ris),
        9 => {
            let l = if src.chance(64) { None } else { Some(src.range(1, lines + 2)) };
            let c = if src.chance(64) { None } else { Some(src.range(1, cols + 2)) };
            out.push(Op::Resize(l, c));
        }
        10 => match src.below(5) {
            0 | 1 => out.push(Op::Tab),
            2 => out.push(Op::Hts),
            _ => out.push(Op::Tbc(*src.pick(&[None, Some(0), Some(3), Some(1), Some(2), Some(5)]))),
        },
        11 => {
            if src.chance(128) {
                out.push(Op::Title(plain_text(src, 8)));
            } else {
                out.push(Op::Icon(plain_text(src, 8)));
            }
        }
        12 => match src.below(4) {
            0 => out.push(Op::So),
            1 => out.push(Op::Si),
            _ => out.push(Op::DefCharset(
                src.pick(&["B", "0", "U", "V", "A", "K", "x"]).to_string(),
                src.pick(&["(", ")", "(", ")", "*"]).to_string(),
            )),
        },
        13 => out.push(Op::Display),
        14 => match src.below(5) {
            0 => out.push(Op::Bell),
            1 => out.push(Op::Aln),
            2 => out.push(Op::Da(num(src, 2), *src.pick(&[None, Some(false), Some(true)]))),
            _ => out.push(Op::ClearDirty),
        },
        _ => {}
    }
}

fn chunk_str(src: &mut Src, s: &str, out: &mut Vec<Op>) {
    let chars: Vec<char> = s.chars().collect();
    let k = 1 + src.below(3) as usize;
    let mut cuts: Vec<usize> = (0..k).map(|_| src.below(chars.len() as u32 + 1) as usize).collect();
    cuts.sort();
    let mut prev = 0;
    for c in cuts {
        out.push(Op::FeedStr(chars[prev..c].iter().collect()));
        prev = c;
    }
    out.push(Op::FeedStr(chars[prev..].iter().collect()));
}

fn chunk_bytes(src: &mut Src, b: &[u8], out: &mut Vec<Op>) {
    let k = 1 + src.below(3) as usize;
    let mut cuts: Vec<usize> = (0..k).map(|_| src.below(b.len() as u32 + 1) as usize).collect();
    cuts.sort();
    let mut prev = 0;
    for c in cuts {
        out.push(Op::FeedBytes(b[prev..c].to_vec()));
        prev = c;
    }
    out.push(Op::FeedBytes(b[prev..].to_vec()));
}

/// encode text for the byte parser: UTF-8, or one byte per char (<= 0xff) in 8-bit mode
pub fn encode(s: &str, eight_bit: bool) -> Vec<u8> {
    if eight_bit {
        let mut v = Vec::new();
        for c in s.chars() {
            if (c as u32) <= 0xff {
                v.push(c as u32 as u8);
            } else {
                let mut buf = [0u8; 4];
                v.extend_from_slice(c.encode_utf8(&mut buf).as_bytes());
            }
        }
        v
    } else {
        s.as_bytes().to_vec()
    }
}

/// zero-pad the decimal parameters of a rendered CSI sequence (the value stays the same)
pub fn pad_numbers(src: &mut Src, seq: &str) -> String {
    let is_csi = seq.starts_with("\x1b[") || seq.starts_with('\u{9b}');
    if !is_csi {
        return seq.to_string();
    }
    let mut out = String::new();
    let mut prev_digit = false;
    for c in seq.chars() {
        if c.is_ascii_digit() && !prev_digit && src.chance(150) {
            let k = *src.pick(&[1usize, 2, 4, 5, 8, 16, 19, 20, 24]);
            out.push_str(&"0".repeat(k));
        }
        prev_digit = c.is_ascii_digit();
        out.push(c);
    }
    out
}

/// emit `seq` through the parser kind of this case, possibly cut into chunks
pub fn feed_ops(src: &mut Src, seq: &str, kind: u32, chunk: u32, out: &mut Vec<Op>) {
    let padded;
    let seq = if src.chance(40) {
        padded = pad_numbers(src, seq);
        padded.as_str()
    } else {
        seq
    };
    let before = out.len();
    if kind == 0 {
        if src.chance(chunk) {
            chunk_str(src, seq, out);
        } else {
            out.push(Op::FeedStr(seq.to_string()));
        }
    } else {
        let b = encode(seq, kind == 2);
        if src.chance(chunk) {
            chunk_bytes(src, &b, out);
        } else {
            out.push(Op::FeedBytes(b));
        }
    }
    // rarely the decoding mode is switched between two chunks of the same sequence (and back)
    if out.len() > before + 1 && src.chance(14) {
        let at = before + 1 + src.below((out.len() - before - 1) as u32) as usize;
        if kind == 0 {
            let flip = src.chance(128);
            out.insert(at, Op::SetUtf8(flip));
            out.push(Op::SetUtf8(true));
        } else if src.chance(128) {
            let (a, b) = if kind == 2 { ("G", "@") } else { ("@", "G") };
            out.insert(at, Op::SelCharset(a.into()));
            out.push(Op::SelCharset(b.into()));
        } else {
            // selecting the mode that is already active (possibly in the middle of a multi-byte
            // character): must change nothing
            let same = if kind == 2 { "@" } else { *src.pick(&["G", "8"]) };
            out.insert(at, Op::SelCharset(same.into()));
        }
    }
}

/// Between the feed() calls of a chunked byte stream: bursts of mode selections (also redundant
/// ones, also a switch away and straight back with nothing fed in between) and empty feeds.
pub fn switch_bursts(src: &mut Src, ops: &mut Vec<Op>) {
    let n = 1 + src.below(2);
    for _ in 0..n {
        let at = src.below(ops.len() as u32 + 1) as usize;
        let k = 1 + src.below(3) as usize;
        let burst: Vec<Op> = (0..k)
            .map(|_| match src.weighted(&[4, 3, 1, 3]) {
                0 => Op::SelCharset("@".into()),
                1 => Op::SelCharset("G".into()),
                2 => Op::SelCharset("8".into()),
                _ => Op::FeedBytes(Vec::new()),
            })
            .collect();
        ops.splice(at..at, burst);
    }
}

/// A history: geometry, optional marker fill, then weighted operations, each either called
/// directly or sent as an escape sequence through the case's parser.
pub fn history(src: &mut Src, p: &Profile) -> Case {
    let (cols, lines) = geometry(src, p.geoms);
    let kind = if p.parser_kind == 3 { src.weighted(&[5, 4, 3]) as u32 } else { p.parser_kind };
    let mut ops = Vec::new();
    if kind == 2 {
        ops.push(Op::SelCharset("@".into()));
    }
    if src.chance(p.fill) {
        let rows = if src.chance(96) { 1 + src.below(0xffff) } else { 0 };
        ops.push(Op::Fill { rows, sparse: src.chance(64) });
    }
    let n = 1 + src.below(p.max_ops);
    let w = p.w.as_vec();
    let (mut c, mut l) = (cols, lines);
    let mut kind = kind;
    let mut cont: Option<Vec<u8>> = None;
    for _ in 0..n {
        if src.exhausted() {
            break;
        }
        // now and then the decoding mode is switched in mid-history (round trips included)
        if src.chance(6) {
            if kind == 0 {
                ops.push(Op::SetUtf8(src.chance(128)));
            } else {
                let code = *src.pick(&["@", "G", "8", "@", "G", "x"]);
                ops.push(Op::SelCharset(code.into()));
                match code {
                    "@" => kind = 2,
                    "G" | "8" => kind = 1,
                    _ => {}
                }
            }
        }
        let g = src.weighted(&w);
        // an unfinished multi-byte character is left in the byte decoder before whatever comes next
        // (and sometimes its remaining bytes arrive right after that operation)
        if let Some(c) = cont.take() {
            if kind == 1 {
                ops.push(Op::FeedBytes(c));
            }
        }
        if kind == 1 && src.chance(p.tail) {
            let (lead, rest) = *src.pick::<(&[u8], &[u8])>(&[
                (b"\xc3", b"\xa9"),
                (b"\xe4", b"\xb8\xad"),
                (b"\xe4\xb8", b"\xad"),
                (b"\xf0\x9f", b"\x98\x80"),
                (b"\xf0\x9f\x98", b"\x80z"),
                (b"\xe2\x82", b"\xacz"),
                (b"a\xe2\x82", b"\xac"),
            ]);
            ops.push(Op::FeedBytes(lead.to_vec()));
            if src.chance(140) {
                cont = Some(rest.to_vec());
            }
        }
        if g == 15 {
            let s = stream(src, 6, false);
            if kind == 1 && src.chance(40) {
                // ill-formed and truncated UTF-8 inside a history
                let mut b = encode(&s, false);
                let extra = utf8_soup(src, 2);
                let at = if src.chance(100) { 0 } else { src.below(b.len() as u32 + 1) as usize };
                b.splice(at..at, extra);
                if src.chance(p.chunk) {
                    chunk_bytes(src, &b, &mut ops);
                } else {
                    ops.push(Op::FeedBytes(b));
                }
            } else {
                feed_ops(src, &s, kind, p.chunk, &mut ops);
            }
            continue;
        }
        let mut tmp = Vec::new();
        group_ops(src, g, c, l, p, &mut tmp);
        for op in tmp {
            if let Op::Resize(nl, nc) = &op {
                l = nl.unwrap_or(l);
                c = nc.unwrap_or(c);
            }
            let via = src.chance(p.via_parser);
            match (via, op.to_sequence(kind != 0 && kind != 1 && src.chance(64))) {
                (true, Some(seq)) => feed_ops(src, &seq, kind, p.chunk, &mut ops),
                _ => ops.push(op),
            }
        }
    }
    Case { cols, lines, ops }
}

// ------------------------------------------------------------------------------------------
// stream grammar

const FINALS_SUPPORTED: &[char] = &[
    '@', 'A', 'B', 'C', 'D', 'E', 'F', 'G', 'H', 'J', 'K', 'L', 'M', 'P', 'X', 'a', 'c', 'd', 'e',
    'f', 'g', 'h', 'l', 'm', 'r',
];
const FINALS_UNSUPPORTED: &[char] = &['S', 'T', 'n', 'q', 's', 'u', 'Z', '`', 'b', 'i', 'p', 't', 'x', 'y', '~'];

fn csi_param(src: &mut Src) -> String {
    match src.weighted(&[6, 14, 6, 2, 2, 1, 2]) {
        6 => {
            // boundary values around machine-integer widths: 2^k + d
            // m * 2^k + d: values that alias small meaningful numbers after a narrowing cast
            let k = *src.pick(&[8u32, 15, 16, 24, 27, 31, 32, 33, 48, 63, 64, 65, 80]);
            let m = *src.pick(&[1u128, 1, 1, 2, 3, 5, 7]);
            let d = *src.pick(&[-1i64, 0, 1, 2, 3, 4, 5, 6, 7, 20, 25, 38, 9998, 9999, 10000]);
            let v: u128 = ((m << k) as i128 + d as i128) as u128;
            v.to_string()
        }
        0 => String::new(),
        1 => src.range(0, 12).to_string(),
        2 => src.pick(&[0u32, 1, 2, 3, 4, 5, 6, 7, 20, 25, 38, 48, 80, 132, 255, 256, 9999]).to_string(),
        3 => src.range(0, 99999).to_string(),
        4 => {
            // zero padding of every length class (1, around the 4 digits of 9999, around the
            // 19/20 digits of a u64, far beyond): the value is still the small number
            let k = *src.pick(&[1usize, 2, 3, 4, 5, 8, 15, 16, 17, 18, 19, 20, 21, 30, 45]);
            let v = *src.pick(&[0u32, 1, 2, 5, 7, 12, 31, 38, 44, 123, 196, 9999]);
            format!("{}{}", "0".repeat(k), v)
        }
        _ => "9".repeat(10 + src.below(30) as usize),
    }
}

/// one token of the stream grammar; `wellformed` restricts to the documented grammar
pub fn token(src: &mut Src, wellformed: bool, out: &mut String) {
    let w_garbage = if wellformed { 0 } else { 6 };
    match src.weighted(&[30, 12, 12, 30, 8, 6, w_garbage]) {
        0 => out.push_str(&text(src, 5)),
        1 => out.push(*src.pick(&['\x07', '\x08', '\x09', '\x0a', '\x0b', '\x0c', '\x0d', '\x0e', '\x0f'])),
        2 => {
            out.push('\x1b');
            match src.weighted(&[10, 3, 2, 3, 3]) {
                0 => out.push(*src.pick(&['c', 'D', 'E', 'M', 'H', '7', '8'])),
                1 => out.push(*src.pick(&['=', '>', 'N', 'Z', 'a', '1', '~', '\\', '6'])),
                2 => {
                    out.push('#');
                    out.push(*src.pick(&['8', '3', '5', 'x']));
                }
                3 => {
                    out.push('%');
                    out.push(*src.pick(&['@', 'G', '8', 'x']));
                }
                _ => {
                    out.push(*src.pick(&['(', ')']));
                    out.push(*src.pick(&['B', '0', 'U', 'V', 'A', 'x']));
                }
            }
        }
        3 => {
            // CSI
            if src.chance(40) {
                out.push('\u{9b}');
            } else {
                out.push_str("\x1b[");
            }
            if src.chance(40) {
                out.push('?');
            }
            let mut n = src.weighted(&[6, 10, 6, 3, 1, 1, 1, 1]);
            if n == 7 {
                // very long parameter lists (around typical fixed-size parameter arrays)
                n = *src.pick(&[15usize, 16, 17, 31, 32, 33, 40, 64, 65, 100]);
            }
            for i in 0..n {
                if i > 0 {
                    out.push(';');
                }
                out.push_str(&csi_param(src));
                if src.chance(16) {
                    out.push(*src.pick(&[
                        '\x07', '\x08', '\x09', '\x0a', '\x0b', '\x0c', '\x0d', ' ', '>', '\x0e', '\x0f', '\x00', '\x7f',
                    ]));
                }
            }
            match src.weighted(&[40, 5, 3, 3, 3]) {
                4 => {
                    // a non-ASCII character where a final is expected (it is an unknown final),
                    // followed by a character that would be a final if the sequence were still open
                    out.push(*src.pick(ODD_NARROW));
                    out.push(*src.pick(&['H', 'm', 'a', '1']));
                }
                0 => out.push(*src.pick(FINALS_SUPPORTED)),
                1 => out.push(*src.pick(FINALS_UNSUPPORTED)),
                2 => {
                    out.push('$');
                    out.push(*src.pick(&['p', 'x', 'z', '|']));
                }
                _ => out.push(*src.pick(&['\x18', '\x1a'])),
            }
        }
        4 => osc(src, wellformed, out),
        5 => {
            // SGR / mode sequences built from the structured generators
            if src.chance(128) {
                out.push_str(&Op::Sgr(sgr_list(src)).to_sequence(false).unwrap());
            } else {
                let (l, p) = mode_list(src, false);
                out.push_str(&Op::Sm(l, p).to_sequence(false).unwrap());
            }
        }
        _ => {
            // garbage: truncated sequences, stray terminators, odd characters
            match src.below(8) {
                0 => out.push('\x1b'),
                1 => out.push_str("\x1b["),
                2 => out.push_str("\x1b]"),
                3 => out.push('\u{9c}'),
                4 => out.push_str("\x1b\\"),
                5 => out.push_str("\x1b[?"),
                6 => out.push_str("\x1b]0;x"),
                _ => out.push(char::from_u32(src.range(0, 0x2ff)).unwrap_or('?')),
            }
        }
    }
}

/// OSC string token
pub fn osc(src: &mut Src, wellformed: bool, out: &mut String) {
    if src.chance(64) {
        out.push('\u{9d}');
    } else {
        out.push_str("\x1b]");
    }
    // code
    let code: String = match src.weighted(&[12, 6, 6, 4, 3, 3]) {
        0 => "0".into(),
        1 => "1".into(),
        2 => "2".into(),
        3 => src.pick(&["3", "4", "5", "6", "7", "8", "9"]).to_string(),
        4 => src.pick(&["a", "L", "l", "I", "z", "\u{130}", "\u{131}", "\u{132}", "\u{ff10}", "\u{661}", "\u{b2}", "\u{e9}"]).to_string(),
        _ => src.pick(&["10", "11", "52", "104", "133", "12", "21", "777"]).to_string(),
    };
    out.push_str(&code);
    out.push(';');
    if src.chance(24) {
        // long payloads (window titles, OSC 8 / 52 style strings)
        out.push_str(&long_run(src));
    }
    let n = src.below(7);
    for _ in 0..n {
        match src.weighted(&[20, 4, 3, 3, if wellformed { 0 } else { 1 }]) {
            0 => out.push(*src.pick(&[
                'a', 'b', 'Z', ' ', ';', '\\', ']', '[', '0', '7', ':', '/', '~', '"', '?',
            ])),
            1 => out.push(*src.pick(&[
                '\u{e9}', '\u{4e2d}', '\u{416}', '\u{1f600}', '\u{301}', '\u{feff}', '\u{2126}', '\u{11b}', '\u{107}', '\u{19c}',
                '\u{15c}', '\u{200b}',
            ])),
            2 => {
                out.push('\x1b');
                out.push(*src.pick(&['x', '[', ']', '(', 'c', '0']));
            }
            3 => out.push(*src.pick(&['\x08', '\x09', '\x0a', '\x0d', '\x00', '\x7f', '\x18'])),
            _ => out.push('\x1b'),
        }
    }
    match src.below(3) {
        0 => out.push('\x07'),
        1 => out.push('\u{9c}'),
        _ => out.push_str("\x1b\\"),
    }
}

pub fn stream(src: &mut Src, max_tokens: u32, wellformed: bool) -> String {
    let n = 1 + src.below(max_tokens);
    let mut s = String::new();
    for _ in 0..n {
        token(src, wellformed, &mut s);
    }
    s
}

/// raw byte strings for the decoder: well-formed forms at their boundaries, overlongs,
/// surrogates, > U+10FFFF, stray continuation bytes, truncated sequences, BOM, ASCII, escapes
pub fn utf8_soup(src: &mut Src, max_items: u32) -> Vec<u8> {
    let n = 1 + src.below(max_items);
    let mut v = Vec::new();
    for _ in 0..n {
        match src.weighted(&[10, 10, 4, 3, 3, 3, 4, 4, 2, 4, 3]) {
            0 => v.push(*src.pick(&[b'a', b'b', b'z', b' ', b'0', b'~'])),
            1 => {
                let c = *src.pick(&[
                    '\u{80}', '\u{a9}', '\u{7ff}', '\u{800}', '\u{fff}', '\u{1000}', '\u{cfff}',
                    '\u{d7ff}', '\u{e000}', '\u{fffd}', '\u{ffff}', '\u{10000}', '\u{3ffff}',
                    '\u{40000}', '\u{fffff}', '\u{100000}', '\u{10ffff}', '\u{4e2d}', '\u{e9}',
                    '\u{301}', '\u{9b}', '\u{9c}', '\u{9d}',
                ]);
                let mut b = [0u8; 4];
                v.extend_from_slice(c.encode_utf8(&mut b).as_bytes());
            }
            2 => v.extend_from_slice(src.pick::<&[u8]>(&[
                b"\xc0\x80", b"\xc1\xbf", b"\xe0\x80\x80", b"\xe0\x9f\xbf", b"\xf0\x80\x80\x80",
                b"\xf0\x8f\xbf\xbf",
            ])),
            3 => v.extend_from_slice(src.pick::<&[u8]>(&[b"\xed\xa0\x80", b"\xed\xbf\xbf", b"\xed\xa0"])),
            4 => v.extend_from_slice(src.pick::<&[u8]>(&[
                b"\xf4\x90\x80\x80", b"\xf5\x80\x80\x80", b"\xf8\x88\x80\x80\x80", b"\xff", b"\xfe",
            ])),
            5 => v.push(src.range(0x80, 0xbf) as u8),
            6 => v.extend_from_slice(src.pick::<&[u8]>(&[
                b"\xc3", b"\xe4", b"\xe4\xb8", b"\xf0", b"\xf0\x9f", b"\xf0\x9f\x98", b"\xe2\x82",
            ])),
            7 => v.extend_from_slice(src.pick::<&[u8]>(&[b"\xef\xbb\xbf", b"\xef\xbb\xbf", b"\xff\xfe", b"\xfe\xff", b"\xff\xfe\x00\x00", b"\xef\xbb"])),
            8 => v.push(src.byte()),
            9 => v.extend_from_slice(src.pick::<&[u8]>(&[
                b"\x1b[2J", b"\x1b[1;2H", b"\r\n", b"\x1b]2;t\x07", b"\x1b[31m", b"\x1b[", b"\x1b",
                b"\x07", b"\x1b(0", b"\x1b%@", b"\x1b%G", b"\x1b%8", b"\x1b%", b"\x1bc",
            ])),
            _ => {
                let c = *src.pick(&['\u{4e2d}', '\u{1f600}', '\u{e9}', '\u{416}']);
                let mut b = [0u8; 4];
                v.extend_from_slice(c.encode_utf8(&mut b).as_bytes());
            }
        }
    }
    v
}

/// cut a byte string into chunks: whole / 2-way / byte-at-a-time / random k-way / with empties
pub fn chunking(src: &mut Src, b: &[u8]) -> Vec<Vec<u8>> {
    match src.weighted(&[2, 6, 3, 6, 2]) {
        0 => vec![b.to_vec()],
        1 => {
            let i = src.below(b.len() as u32 + 1) as usize;
            vec![b[..i].to_vec(), b[i..].to_vec()]
        }
        2 => b.iter().map(|x| vec![*x]).collect(),
        3 => {
            let k = 1 + src.below(5) as usize;
            let mut cuts: Vec<usize> = (0..k).map(|_| src.below(b.len() as u32 + 1) as usize).collect();
            cuts.sort();
            let mut out = Vec::new();
            let mut prev = 0;
            for c in cuts {
                out.push(b[prev..c].to_vec());
                prev = c;
            }
            out.push(b[prev..].to_vec());
            out
        }
        _ => {
            let i = src.below(b.len() as u32 + 1) as usize;
            vec![Vec::new(), b[..i].to_vec(), Vec::new(), Vec::new(), b[i..].to_vec(), Vec::new()]
        }
    }
}

/// Large inputs: a byte string whose length (and whose chunk lengths) sit around the usual
/// buffer sizes, built by repeating short generated units; exercises per-feed buffering.
pub fn big_bytes(src: &mut Src, unit_items: u32) -> Vec<u8> {
    let sizes = [
        1000u32, 4095, 4096, 4097, 8191, 8192, 8193, 16383, 16384, 16385, 20000, 32767, 32768, 32769, 40000, 65535, 65536,
        65537, 70000,
    ];
    let target = *src.pick(&sizes) as usize + src.below(3) as usize;
    let mut out = Vec::with_capacity(target + 64);
    // sometimes the whole input sits inside a string or sequence that is (still) open
    out.extend_from_slice(src.pick::<&[u8]>(&[b"", b"", b"", b"\x1b]2;", b"\x1b]", b"\x1b[", b"\x1b]0;t\x1b", b"\xc2\x9d1;"]));
    let k = 1 + src.below(3);
    let units: Vec<Vec<u8>> = (0..k).map(|_| utf8_soup(src, unit_items)).collect();
    let filler: &[u8] = src.pick::<&[u8]>(&[b"a", b"ab\r\n", b"\xc3\xa9", b"\xe4\xb8\xad", b"x\x1b[1mY", b"\xf0\x9f\x98\x80z"]);
    // the mix of units and filler is a 16-step pattern drawn once: the loop below must not
    // consume choices (it runs tens of thousands of times and would exhaust the source, leaving
    // only first alternatives - "one feed" - for the chunking drawn afterwards)
    let pattern = src.u16() & src.u16();
    let mut i = 0;
    while out.len() < target {
        if (pattern >> (i % 16)) & 1 == 1 || i % 7 == 3 {
            out.extend_from_slice(&units[i % units.len()]);
        } else {
            out.extend_from_slice(filler);
        }
        i += 1;
        if i > 200_000 {
            break;
        }
    }
    out
}

pub fn big_chunking(src: &mut Src, b: &[u8]) -> Vec<Vec<u8>> {
    match src.weighted(&[3, 4, 3, 2, 4]) {
        0 => vec![b.to_vec()],
        4 => {
            // a read loop: a short first read, then reads whose length sits at (or up to 3 below)
            // a buffer size - so the reads start at every alignment relative to the multi-byte
            // characters, with an incomplete character carried into a buffer-sized read
            let off = (*src.pick(&[0u32, 1, 2, 3, 5, 7, 4093, 4094, 4095]) as usize).min(b.len());
            let size = *src.pick(&[4096u32, 4096, 8192, 16384, 65536]) as usize - src.below(4) as usize;
            let mut out = vec![b[..off].to_vec()];
            out.extend(b[off..].chunks(size).map(|c| c.to_vec()));
            out
        }
        1 => {
            // one cut near a buffer-size boundary
            let at = *src.pick(&[1u32, 4095, 4096, 4097, 8192, 16383, 16384, 16385, 32768, 65536]) as usize;
            let at = at.min(b.len());
            vec![b[..at].to_vec(), b[at..].to_vec()]
        }
        2 => {
            let size = *src.pick(&[1000u32, 4096, 5000, 16384, 16385, 33000]) as usize;
            b.chunks(size).map(|c| c.to_vec()).collect()
        }
        _ => {
            let i = src.below(b.len() as u32 + 1) as usize;
            vec![b[..i].to_vec(), b[i..].to_vec()]
        }
    }
}
