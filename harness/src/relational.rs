//! Model-free relational oracles: C01 (returns normally, not wedged), C02 (chunking
//! independence), C03 (event list vs reference recogniser), C11 (streaming UTF-8 decoding).

use std::panic::{catch_unwind, AssertUnwindSafe};
use std::sync::{Arc, Mutex};

use memterm::byte_parser::ByteParser;
use memterm::parser::Parser;
use memterm::parser_listener::ParserListener;

use crate::engine::{hash_of, lock, take_panic, CaseResult, Failure, PlainTerm, Stats, Term};
use crate::ops::{apply_listener, pretty_op, Case, Op};
use crate::recog::{normalise, Recog, Utf8Ref};
use crate::snap::Snap;

fn fail(prop: &str, kind: &str, step: usize, op: &Op, detail: String, sigx: &str) -> Failure {
    Failure {
        property: prop.into(),
        kind: kind.into(),
        step,
        op: pretty_op(op),
        detail,
        sig: format!("{}:{}:{}{}", prop, kind, op.kind(), sigx),
    }
}

// ------------------------------------------------------------------------------------------
// C01

/// The probe returns the recogniser to ground from every state, resets the terminal and
/// prints one visible character.
pub const PROBE: &str = "\x07\x07\x18\x1bcZ";

pub fn c01_nontrivial(case: &Case) -> bool {
    case.ops.iter().any(|o| match o {
        Op::FeedStr(s) => s.chars().any(|c| c == '\x1b' || c == '\u{9b}' || c == '\u{9d}'),
        Op::FeedBytes(b) => b.iter().any(|c| *c == 0x1b || *c >= 0x80),
        Op::Resize(..) => true,
        Op::Cuu(n) | Op::Cud(n) | Op::Cuf(n) | Op::Cub(n) | Op::Cha(n) | Op::Vpa(n) | Op::Ich(n)
        | Op::Dch(n) | Op::Ech(n) | Op::Il(n) | Op::Dl(n) => matches!(n, Some(0) | Some(9999) | None),
        Op::Ed(n, _) | Op::El(n, _) => !matches!(n, Some(0) | Some(1) | Some(2)),
        Op::Sm(..) | Op::Rm(..) | Op::Display => true,
        _ => false,
    })
}

/// Every call must return normally; afterwards display() still returns `lines` rows and
/// further input is still processed (the probe leaves `Z` in the top-left cell).
pub fn run_c01(case: &Case) -> CaseResult {
    let mut stats = Stats::default();
    stats.cases = 1;
    let mut fails = Vec::new();
    // the Screen is attached to the parsers directly, as an embedder does
    let mut term = PlainTerm::new(case.cols, case.lines);
    let mut used_str = false;
    let mut used_bytes = false;
    for (i, op) in case.ops.iter().enumerate() {
        match op {
            Op::FeedStr(_) | Op::SetUtf8(_) => used_str = true,
            Op::FeedBytes(_) | Op::SelCharset(_) => used_bytes = true,
            _ => {}
        }
        stats.evaluations += 1;
        stats.class(op.kind());
        let r = catch_unwind(AssertUnwindSafe(|| term.exec(op)));
        if r.is_err() {
            let p = take_panic();
            let loc = p.rsplit(" @ ").next().unwrap_or("").to_string();
            fails.push(fail(
                "C01",
                "panic",
                i,
                op,
                format!("panicked: {}", p),
                &format!("@{}", loc),
            ));
            break;
        }
    }
    if fails.is_empty() {
        // not wedged?
        if !used_str && !used_bytes {
            used_str = true;
        }
        let mut probes: Vec<Op> = Vec::new();
        if used_bytes {
            probes.push(Op::FeedBytes(PROBE.as_bytes().to_vec()));
        }
        if used_str {
            probes.push(Op::FeedStr(PROBE.to_string()));
        }
        for (k, probe) in probes.iter().enumerate() {
            let r = catch_unwind(AssertUnwindSafe(|| {
                term.exec(probe);
                let mut t = term.lock();
                let d = t.display();
                (d, Snap::of(&t))
            }));
            match r {
                Err(_) => {
                    fails.push(fail(
                        "C01",
                        "probe-panic",
                        case.ops.len() + k,
                        probe,
                        format!("probe input after the history panicked: {}", take_panic()),
                        "",
                    ));
                    break;
                }
                Ok((d, snap)) => {
                    if d.len() as u32 != snap.lines {
                        fails.push(fail(
                            "C01",
                            "display-len",
                            case.ops.len() + k,
                            probe,
                            format!("display() returned {} rows for {} lines", d.len(), snap.lines),
                            "",
                        ));
                    } else if snap.cells[0][0].data != "Z" {
                        fails.push(fail(
                            "C01",
                            "wedged",
                            case.ops.len() + k,
                            probe,
                            format!(
                                "further input is not processed: after BEL BEL CAN ESC c Z the top-left cell holds {:?} (row 0 = {:?})",
                                snap.cells[0][0].data,
                                snap.row_text(0)
                            ),
                            "",
                        ));
                    }
                }
            }
        }
    }
    if c01_nontrivial(case) {
        stats.nontrivial.insert(hash_of(case));
        stats.sample(|| case.pretty());
    }
    CaseResult { fails, stats }
}

// ------------------------------------------------------------------------------------------
// C02

/// merge maximal runs of adjacent feeds of the same kind
pub fn merge_feeds(ops: &[Op]) -> Vec<Op> {
    let mut out: Vec<Op> = Vec::new();
    for op in ops {
        // "empty chunks are no-ops": the whole-feed side does not make the call at all
        match op {
            Op::FeedStr(s) if s.is_empty() => continue,
            Op::FeedBytes(b) if b.is_empty() => continue,
            _ => {}
        }
        match (out.last_mut(), op) {
            (Some(Op::FeedStr(a)), Op::FeedStr(b)) => a.push_str(b),
            (Some(Op::FeedBytes(a)), Op::FeedBytes(b)) => a.extend_from_slice(b),
            _ => out.push(op.clone()),
        }
    }
    out
}

fn run_plain(case_ops: &[Op], cols: u32, lines: u32) -> Result<(Snap, Vec<Op>), (usize, String)> {
    let mut term = Term::new(cols, lines, None);
    lock(&term.tee).log_on = true;
    for (i, op) in case_ops.iter().enumerate() {
        let r = catch_unwind(AssertUnwindSafe(|| term.exec(op)));
        if r.is_err() {
            return Err((i, take_panic()));
        }
    }
    let t = lock(&term.tee);
    Ok((Snap::of(&t.screen), t.log.clone()))
}

/// State and listener events after feeding the chunks == after feeding their concatenation.
pub fn run_c02(case: &Case) -> CaseResult {
    let mut stats = Stats::default();
    stats.cases = 1;
    let mut fails = Vec::new();
    let merged = merge_feeds(&case.ops);
    // non-trivial: some cut falls inside a multi-byte character or inside a control sequence
    let mut inside = false;
    {
        let mut r = Term::new(1, 1, None);
        for (i, op) in case.ops.iter().enumerate() {
            let _ = r.ref_events(op);
            let next_is_same_feed = match (op, case.ops.get(i + 1)) {
                (Op::FeedStr(_), Some(Op::FeedStr(_))) => true,
                (Op::FeedBytes(_), Some(Op::FeedBytes(_))) => true,
                _ => false,
            };
            if next_is_same_feed {
                let mid = match op {
                    Op::FeedStr(_) => !r.rp.in_ground(),
                    _ => !r.rb.in_ground() || r.rutf.pending(),
                };
                if mid {
                    inside = true;
                    if r.rutf.pending() {
                        stats.class("cut-inside-utf8-char");
                    } else {
                        stats.class("cut-inside-sequence");
                    }
                }
            }
        }
    }
    stats.evaluations += 1;
    let last = case.ops.last().cloned().unwrap_or(Op::Bell);
    // (1) state, with the Screen attached directly
    if let (Ok(da), Ok(db)) = (PlainTerm::run(case.cols, case.lines, &case.ops), PlainTerm::run(case.cols, case.lines, &merged)) {
        if let Some(d) = da.diff(&db, &[]) {
            fails.push(fail(
                "C02",
                "chunking-state",
                case.ops.len().saturating_sub(1),
                &last,
                format!("chunked vs whole feed (Screen attached directly): {}", d),
                "",
            ));
        }
    }
    // (2) state and listener events through the logging listener
    let a = run_plain(&case.ops, case.cols, case.lines);
    let b = run_plain(&merged, case.cols, case.lines);
    match (a, b) {
        (Ok((sa, la)), Ok((sb, lb))) => {
            if let Some(d) = sa.diff(&sb, &[]) {
                fails.push(fail(
                    "C02",
                    "chunking-state",
                    case.ops.len().saturating_sub(1),
                    &last,
                    format!("chunked vs whole feed: {}", d),
                    "",
                ));
            } else {
                let (na, nb) = (normalise(&la), normalise(&lb));
                if na != nb {
                    let i = (0..na.len().max(nb.len())).find(|i| na.get(*i) != nb.get(*i)).unwrap_or(0);
                    fails.push(fail(
                        "C02",
                        "chunking-events",
                        case.ops.len().saturating_sub(1),
                        &last,
                        format!(
                            "listener events differ at #{}: chunked {:?} vs whole {:?}",
                            i,
                            na.get(i).map(pretty_op),
                            nb.get(i).map(pretty_op)
                        ),
                        "",
                    ));
                }
            }
        }
        (Err((i, p)), Ok(_)) | (Ok(_), Err((i, p))) => {
            fails.push(fail(
                "C02",
                "chunking-panic-one-side",
                i,
                &last,
                format!("only one of chunked/whole panicked: {}", p),
                "",
            ));
        }
        (Err(_), Err(_)) => {
            stats.exclude("both-sides-panic(C01)");
        }
    }
    if inside {
        stats.nontrivial.insert(hash_of(case));
        stats.sample(|| case.pretty());
    }
    CaseResult { fails, stats }
}

// ------------------------------------------------------------------------------------------
// recording listener (C03, C11)

#[derive(Default)]
pub struct Recorder {
    pub log: Vec<Op>,
}

macro_rules! rec {
    ($self:ident, $op:expr) => {
        $self.log.push($op)
    };
}

impl ParserListener for Recorder {
    fn alignment_display(&mut self) {
        rec!(self, Op::Aln)
    }
    fn define_charset(&mut self, code: &str, mode: &str) {
        rec!(self, Op::DefCharset(code.into(), mode.into()))
    }
    fn reset(&mut self) {
        rec!(self, Op::Ris)
    }
    fn index(&mut self) {
        rec!(self, Op::Ind)
    }
    fn linefeed(&mut self) {
        rec!(self, Op::Lf)
    }
    fn reverse_index(&mut self) {
        rec!(self, Op::Ri)
    }
    fn set_tab_stop(&mut self) {
        rec!(self, Op::Hts)
    }
    fn save_cursor(&mut self) {
        rec!(self, Op::Sc)
    }
    fn restore_cursor(&mut self) {
        rec!(self, Op::Rc)
    }
    fn shift_out(&mut self) {
        rec!(self, Op::So)
    }
    fn shift_in(&mut self) {
        rec!(self, Op::Si)
    }
    fn bell(&mut self) {
        rec!(self, Op::Bell)
    }
    fn backspace(&mut self) {
        rec!(self, Op::Bs)
    }
    fn tab(&mut self) {
        rec!(self, Op::Tab)
    }
    fn cariage_return(&mut self) {
        rec!(self, Op::Cr)
    }
    fn draw(&mut self, input: &str) {
        rec!(self, Op::Draw(input.into()))
    }
    fn insert_characters(&mut self, count: Option<u32>) {
        rec!(self, Op::Ich(count))
    }
    fn cursor_up(&mut self, count: Option<u32>) {
        rec!(self, Op::Cuu(count))
    }
    fn cursor_down(&mut self, count: Option<u32>) {
        rec!(self, Op::Cud(count))
    }
    fn cursor_forward(&mut self, count: Option<u32>) {
        rec!(self, Op::Cuf(count))
    }
    fn cursor_back(&mut self, count: Option<u32>) {
        rec!(self, Op::Cub(count))
    }
    fn cursor_down1(&mut self, count: Option<u32>) {
        rec!(self, Op::Cnl(count))
    }
    fn cursor_up1(&mut self, count: Option<u32>) {
        rec!(self, Op::Cpl(count))
    }
    fn cursor_to_column(&mut self, character: Option<u32>) {
        rec!(self, Op::Cha(character))
    }
    fn cursor_position(&mut self, line: Option<u32>, character: Option<u32>) {
        rec!(self, Op::Cup(line, character))
    }
    fn erase_in_display(&mut self, how: Option<u32>, private: Option<bool>) {
        rec!(self, Op::Ed(how, private))
    }
    fn erase_in_line(&mut self, how: Option<u32>, private: Option<bool>) {
        rec!(self, Op::El(how, private))
    }
    fn insert_lines(&mut self, count: Option<u32>) {
        rec!(self, Op::Il(count))
    }
    fn delete_lines(&mut self, count: Option<u32>) {
        rec!(self, Op::Dl(count))
    }
    fn delete_characters(&mut self, count: Option<u32>) {
        rec!(self, Op::Dch(count))
    }
    fn erase_characters(&mut self, count: Option<u32>) {
        rec!(self, Op::Ech(count))
    }
    fn report_device_attributes(&mut self, mode: Option<u32>, private: Option<bool>) {
        rec!(self, Op::Da(mode, private))
    }
    fn cursor_to_line(&mut self, line: Option<u32>) {
        rec!(self, Op::Vpa(line))
    }
    fn clear_tab_stop(&mut self, how: Option<u32>) {
        rec!(self, Op::Tbc(how))
    }
    fn set_mode(&mut self, modes: &[u32], is_private: bool) {
        rec!(self, Op::Sm(modes.to_vec(), is_private))
    }
    fn reset_mode(&mut self, modes: &[u32], is_private: bool) {
        rec!(self, Op::Rm(modes.to_vec(), is_private))
    }
    fn select_graphic_rendition(&mut self, modes: &[u32]) {
        rec!(self, Op::Sgr(modes.to_vec()))
    }
    fn set_title(&mut self, title: &str) {
        rec!(self, Op::Title(title.into()))
    }
    fn set_icon_name(&mut self, icon_name: &str) {
        rec!(self, Op::Icon(icon_name.into()))
    }
    fn set_margins(&mut self, top: Option<u32>, bottom: Option<u32>) {
        rec!(self, Op::Stbm(top, bottom))
    }
    fn display(&mut self) -> Vec<String> {
        Vec::new()
    }
}

/// Parser(s) attached to a recording listener.
pub struct RecTerm {
    pub rec: Arc<Mutex<Recorder>>,
    parser: Option<Parser<'static, Recorder>>,
    bparser: Option<ByteParser<'static, Recorder>>,
}

impl RecTerm {
    pub fn new() -> RecTerm {
        RecTerm { rec: Arc::new(Mutex::new(Recorder::default())), parser: None, bparser: None }
    }
    pub fn exec(&mut self, op: &Op) {
        match op {
            Op::FeedStr(s) => {
                if self.parser.is_none() {
                    self.parser = Some(Parser::new(self.rec.clone()));
                }
                self.parser.as_mut().unwrap().feed(s.clone());
            }
            Op::FeedBytes(b) => {
                if self.bparser.is_none() {
                    self.bparser = Some(ByteParser::new(self.rec.clone()));
                }
                self.bparser.as_mut().unwrap().feed(b);
            }
            Op::SelCharset(c) => {
                if self.bparser.is_none() {
                    self.bparser = Some(ByteParser::new(self.rec.clone()));
                }
                self.bparser.as_mut().unwrap().select_other_charset(c);
            }
            Op::SetUtf8(b) => {
                if self.parser.is_none() {
                    self.parser = Some(Parser::new(self.rec.clone()));
                }
                self.parser.as_mut().unwrap().set_use_utf8(*b);
            }
            other => {
                let mut r = self.rec.lock().unwrap_or_else(|e| e.into_inner());
                apply_listener(&mut *r, other);
            }
        }
    }
    pub fn log(&self) -> Vec<Op> {
        self.rec.lock().unwrap_or_else(|e| e.into_inner()).log.clone()
    }
}

/// does the string stay inside the conformance domain of C03 / C19?  (OSC whose first
/// character is one of the Linux-console palette letters or a terminator/ESC is excluded,
/// and so are OSC parameters with a leading zero)
pub fn c03_excluded(ops: &[Op]) -> bool {
    let mut r = Recog::new(true);
    let mut u = Utf8Ref::new();
    let mut sink = Vec::new();
    let mut check = |r: &mut Recog, c: char| -> bool {
        let at_start = r.st == crate::recog::St::OscStart;
        r.feed(c, &mut sink);
        at_start && matches!(c, 'R' | 'P' | 'p' | '\x07' | '\x1b' | '\u{9c}')
    };
    for op in ops {
        match op {
            Op::FeedStr(s) => {
                for c in s.chars() {
                    if check(&mut r, c) {
                        return true;
                    }
                }
            }
            Op::FeedBytes(b) => {
                let t = if r.utf8 { u.feed(b) } else { b.iter().map(|x| *x as char).collect() };
                for c in t.chars() {
                    if check(&mut r, c) {
                        return true;
                    }
                }
            }
            Op::SelCharset(c) if c == "@" => r.utf8 = false,
            Op::SelCharset(c) if c == "G" || c == "8" => r.utf8 = true,
            Op::SetUtf8(b) => r.utf8 = *b,
            _ => {}
        }
    }
    false
}

/// C03: ordered listener events of the real parser == reference recogniser (after
/// normalisation); the trailing `X` of every case observes the return to ground.
pub fn run_c03(case: &Case) -> CaseResult {
    let mut stats = Stats::default();
    stats.cases = 1;
    let mut fails = Vec::new();
    if c03_excluded(&case.ops) {
        stats.exclude("osc-code-R/P/p/terminator");
        return CaseResult { fails, stats };
    }
    let mut real = RecTerm::new();
    let mut refr = Term::new(1, 1, None);
    let mut expect: Vec<Op> = Vec::new();
    let mut left_ground = false;
    for (i, op) in case.ops.iter().enumerate() {
        expect.extend(refr.ref_events(op));
        if !refr.rp.in_ground() || !refr.rb.in_ground() {
            left_ground = true;
        }
        stats.evaluations += 1;
        let r = catch_unwind(AssertUnwindSafe(|| real.exec(op)));
        if r.is_err() {
            let p = take_panic();
            fails.push(fail("C03", "panic", i, op, format!("parser panicked: {}", p), ""));
            fails.push(fail("C01", "panic", i, op, format!("parser panicked: {}", p), ""));
            return CaseResult { fails, stats };
        }
        // compare after every chunk (prefix property: events are emitted in order)
        let got = normalise(&real.log());
        let want = normalise(&expect);
        let cmp_len = got.len().max(want.len());
        if let Some(k) = (0..cmp_len).find(|k| got.get(*k) != want.get(*k)) {
            fails.push(fail(
                "C03",
                "events",
                i,
                op,
                format!(
                    "listener event #{}: real {:?}, documented grammar {:?} (real has {} events, reference {})",
                    k,
                    got.get(k).map(pretty_op),
                    want.get(k).map(pretty_op),
                    got.len(),
                    want.len()
                ),
                "",
            ));
            break;
        }
    }
    if left_ground || case.ops.iter().any(|o| matches!(o, Op::FeedStr(s) if s.contains('\x1b'))) {
        stats.nontrivial.insert(hash_of(case));
        stats.sample(|| case.pretty());
    }
    CaseResult { fails, stats }
}

/// C11: ByteParser fed the chunks vs Parser fed the reference decoding of the same bytes.
pub fn run_c11(case: &Case) -> CaseResult {
    let mut stats = Stats::default();
    stats.cases = 1;
    let mut fails = Vec::new();
    let mut a = RecTerm::new();
    let mut b = RecTerm::new();
    let mut dec = Utf8Ref::new();
    let mut utf8 = true;
    let mut started = false;
    let mut interesting = false;
    for (i, op) in case.ops.iter().enumerate() {
        stats.evaluations += 1;
        let bop: Option<Op> = match op {
            Op::FeedBytes(bytes) => {
                let mut text = if utf8 {
                    if std::str::from_utf8(bytes).is_err() {
                        interesting = true;
                    }
                    dec.feed(bytes)
                } else {
                    bytes.iter().map(|x| *x as char).collect()
                };
                if dec.pending() {
                    stats.class("tail-held-across-feed");
                }
                if utf8 && !started && !text.is_empty() {
                    // one leading BOM of the stream is ignored
                    if text.starts_with('\u{feff}') {
                        text.remove(0);
                        stats.class("leading-bom");
                    }
                    started = true;
                }
                Some(Op::FeedStr(text))
            }
            Op::SelCharset(c) => {
                match c.as_str() {
                    "@" => {
                        utf8 = false;
                        dec.clear();
                        started = true;
                        interesting = true;
                        Some(Op::SetUtf8(false))
                    }
                    "G" | "8" => {
                        utf8 = true;
                        Some(Op::SetUtf8(true))
                    }
                    _ => None,
                }
            }
            _ => None,
        };
        let r = catch_unwind(AssertUnwindSafe(|| {
            a.exec(op);
            if let Some(o) = &bop {
                b.exec(o);
            }
        }));
        if r.is_err() {
            let p = take_panic();
            fails.push(fail("C11", "panic", i, op, format!("panicked: {}", p), ""));
            fails.push(fail("C01", "panic", i, op, format!("panicked: {}", p), ""));
            return CaseResult { fails, stats };
        }
        let (la, lb) = (normalise(&a.log()), normalise(&b.log()));
        if la != lb {
            let k = (0..la.len().max(lb.len())).find(|k| la.get(*k) != lb.get(*k)).unwrap_or(0);
            fails.push(fail(
                "C11",
                "decode",
                i,
                op,
                format!(
                    "after this feed, event #{}: ByteParser {:?} vs Parser fed the reference decoding {:?}",
                    k,
                    la.get(k).map(pretty_op),
                    lb.get(k).map(pretty_op)
                ),
                "",
            ));
            break;
        }
    }
    if interesting || stats.classes.contains_key("tail-held-across-feed") {
        stats.nontrivial.insert(hash_of(case));
        stats.sample(|| case.pretty());
    }
    CaseResult { fails, stats }
}
