//! The property table: per property the generator bias, the oracle configuration, the
//! non-trivial rule and the exhaustive sub-domains.

use std::sync::Arc;

use crate::engine::{run_stepper, Cfg};
use crate::exh;
use crate::gen::{self, Profile, Weights, GEOMS_ALL, GEOMS_SMALL};
use crate::ops::{Case, Op};
use crate::relational::{run_c01, run_c02, run_c03, run_c11};
use crate::runner::{DecodeFn, RunFn, Spec, Sub, SubKind};
use crate::src::Src;

pub fn stepper_run(cfg: Cfg) -> RunFn {
    Arc::new(move |c: &Case| run_stepper(c, &cfg))
}

fn hist(p: Profile) -> DecodeFn {
    Arc::new(move |s: &mut Src| gen::history(s, &p))
}

fn weights(f: impl FnOnce(&mut Weights)) -> Weights {
    let mut w = Weights::uniform();
    // raw stream tokens (aborted / skipped / malformed sequences, embedded controls) between
    // the focus operations, so that recogniser state left behind by them is exercised too
    w.raw = 5;
    f(&mut w);
    w
}

fn gen_sub(name: &'static str, decode: DecodeFn, run: RunFn, cases: (u64, u64), max_bytes: usize) -> Sub {
    Sub { name, kind: SubKind::Gen { decode, run: run.clone(), cases, max_bytes }, replay: run }
}

pub fn cfg_for(id: &str) -> Cfg {
    let mut c = Cfg::stepper(id);
    match id {
        "C04" => {
            c.reveal = true;
        }
        "C06" | "C07" => {
            c.reveal = true;
        }
        "C13" => {
            c.reveal = true;
            c.adopt = vec!["C04", "C07"];
        }
        "C16" => {
            c.reveal = true;
            c.dirty = true;
        }
        "C12" => {
            c.dirty = true;
        }
        "C09" => {
            c.model = true;
        }
        "C10" => {
            c.c10 = true;
        }
        "C15" => {
            c.c15 = true;
        }
        "C17" => {
            c.dirty = true;
        }
        "C19" => {
            c.e2e_all = true;
        }
        "C20" => {
            c.adopt = vec!["C04"];
        }
        _ => {}
    }
    c
}

pub fn profile_for(id: &str) -> Profile {
    let mut p = Profile::base();
    match id {
        "C04" => {
            p.w = weights(|w| {
                w.draw = 40;
                w.cursor = 12;
                w.mode = 10;
                w.charset = 5;
                w.scroll = 5;
                w.sgr = 6;
                w.resize = 1;
                w.ris = 0;
            });
            p.deccolm = false;
        }
        "C05" => {
            p.w = weights(|w| {
                w.cursor = 60;
                w.scroll = 8;
                w.mode = 8;
                w.draw = 6;
                w.resize = 2;
                w.ris = 0;
            });
            p.deccolm = false;
            p.geoms = GEOMS_ALL;
        }
        "C06" => {
            p.w = weights(|w| {
                w.scroll = 50;
                w.cursor = 14;
                w.draw = 10;
                w.mode = 6;
                w.ris = 0;
                w.resize = 1;
            });
            p.deccolm = false;
            p.fill = 200;
        }
        "C07" => {
            p.w = weights(|w| {
                w.erase = 45;
                w.cursor = 16;
                w.sgr = 10;
                w.draw = 8;
                w.scroll = 5;
                w.mode = 5;
                w.ris = 0;
            });
            p.deccolm = false;
            p.fill = 220;
        }
        "C08" => {
            p.w = weights(|w| {
                w.sgr = 60;
                w.draw = 12;
                w.mode = 5;
                w.erase = 4;
            });
            p.deccolm = false;
        }
        "C09" => {
            p.w = weights(|w| {
                w.resize = 14;
                w.mode = 10;
                w.raw = 10;
                w.tabs = 8;
                w.save = 8;
            });
            p.geoms = GEOMS_ALL;
            p.max_ops = 30;
        }
        "C10" => {
            p.w = weights(|w| {
                w.display = 22;
                w.draw = 16;
                w.scroll = 12;
                w.edit = 10;
                w.mode = 8;
                w.misc = 4;
            });
            p.fill = 100;
            p.deccolm = false;
        }
        "C12" => {
            p.w = weights(|w| {
                w.mode = 50;
                w.draw = 8;
                w.save = 8;
                w.resize = 4;
                w.cursor = 8;
            });
        }
        "C13" => {
            p.w = weights(|w| {
                w.edit = 45;
                w.draw = 14;
                w.cursor = 14;
                w.erase = 8;
                w.mode = 6;
                w.ris = 0;
            });
            p.deccolm = false;
            p.fill = 200;
        }
        "C14" => {
            p.w = weights(|w| {
                w.save = 40;
                w.cursor = 14;
                w.sgr = 8;
                w.charset = 8;
                w.mode = 8;
                w.scroll = 8;
                w.resize = 6;
            });
            p.deccolm = false;
        }
        "C15" => {
            p.w = weights(|w| {
                w.ris = 12;
                w.save = 2;
                w.mode = 10;
                w.tabs = 6;
                w.charset = 6;
                w.osc = 6;
                w.resize = 5;
            });
            p.max_ops = 30;
            p.tail = 20;
        }
        "C16" => {
            p.w = weights(|w| {
                w.resize = 40;
                w.draw = 10;
                w.edit = 8;
                w.erase = 6;
                w.scroll = 10;
                w.mode = 6;
                w.ris = 0;
            });
            p.fill = 200;
        }
        "C17" => {
            p.w = weights(|w| {
                w.draw = 16;
                w.mode = 10;
                w.scroll = 10;
                w.resize = 5;
                w.edit = 8;
                w.erase = 8;
                w.misc = 4;
            });
            p.fill = 100;
        }
        "C18" => {
            p.w = weights(|w| {
                w.tabs = 55;
                w.cursor = 16;
                w.resize = 8;
                w.mode = 4;
                w.draw = 4;
            });
            p.geoms = GEOMS_ALL;
        }
        "C19" => {
            p.w = weights(|w| {
                w.osc = 30;
                w.draw = 8;
                w.raw = 6;
            });
            p.via_parser = 256;
            p.chunk = 128;
            p.deccolm = false;
        }
        "C20" => {
            p.w = weights(|w| {
                w.charset = 40;
                w.draw = 30;
                w.save = 6;
                w.ris = 1;
                w.raw = 12;
            });
            p.parser_kind = 3;
            p.deccolm = false;
        }
        _ => {}
    }
    p
}

const STEP_ASSUME: &[&str] = &[
    "character width / combining classification of the unicode-width and unicode-normalization crates is trusted (the hand-written class table is self-tested against them at start-up)",
    "the reference model pins pyte's behaviour where the statement is silent (DESIGN.md section 5)",
    "only the shipping cfg(not(test)) copy of the recogniser is executed (external crate)",
];

fn stepper_spec(id: &'static str, rule: &'static str, cases: (u64, u64), mut extra: Vec<Sub>) -> Spec {
    let run = stepper_run(cfg_for(id));
    let mut subs = vec![gen_sub("gen-history", hist(profile_for(id)), run.clone(), cases, 640)];
    // the same bias on wide/tall screens (up to 140x40, widths around 128 and 132) ...
    let mut large = profile_for(id);
    large.geoms = gen::GEOMS_LARGE;
    large.max_ops = 20;
    subs.push(gen_sub("gen-large-screens", hist(large), run.clone(), (cases.0 / 8, cases.1 / 8), 520));
    // ... on screens just beyond the parameter cap of 9999 in one dimension ...
    let mut huge = profile_for(id);
    huge.geoms = gen::GEOMS_HUGE;
    huge.max_ops = 6;
    huge.fill = 40;
    huge.deccolm = false;
    subs.push(gen_sub("gen-huge-screens", hist(huge), run.clone(), (160, 6_000), 200));
    // ... and in long histories on small screens
    let mut long = profile_for(id);
    long.geoms = GEOMS_SMALL;
    long.max_ops = 160;
    subs.push(gen_sub("gen-long-histories", hist(long), run.clone(), (cases.0 / 10, cases.1 / 10), 4000));
    // bounded-exhaustive: all operation sequences up to length 5 (6) over a fixed alphabet on 3x3
    subs.push(exh::small_scope_sub(id, run));
    subs.append(&mut extra);
    Spec { id, rule, assumptions: STEP_ASSUME.to_vec(), subs }
}

/// C02: a stream of tokens, rendered for one parser kind and cut into chunks
fn c02_decode() -> DecodeFn {
    Arc::new(|s: &mut Src| {
        let (cols, lines) = gen::geometry(s, GEOMS_SMALL);
        let kind = s.weighted(&[4, 5, 3]) as u32;
        let mut ops = Vec::new();
        if kind == 2 {
            ops.push(Op::SelCharset("@".into()));
        }
        let text = gen::stream(s, 8, false);
        if kind == 0 {
            let cs: Vec<char> = text.chars().collect();
            let bytes_like: Vec<u8> = (0..cs.len()).map(|i| i as u8).collect();
            // reuse the byte chunker on indices
            let chunks = gen::chunking(s, &bytes_like);
            let mut pos = 0;
            for ch in chunks {
                let part: String = cs[pos..pos + ch.len()].iter().collect();
                pos += ch.len();
                ops.push(Op::FeedStr(part));
            }
        } else {
            let mut b = gen::encode(&text, kind == 2);
            if s.chance(48) {
                // splice raw bytes (invalid UTF-8) into the stream
                let extra = gen::utf8_soup(s, 3);
                let at = s.below(b.len() as u32 + 1) as usize;
                b.splice(at..at, extra);
            }
            let mut feeds = Vec::new();
            for ch in gen::chunking(s, &b) {
                feeds.push(Op::FeedBytes(ch));
            }
            if s.chance(56) {
                // mode selections and empty feeds between the chunks (the whole-feed side keeps
                // the selections at the same byte offsets and drops the empty feeds)
                gen::switch_bursts(s, &mut feeds);
            }
            ops.extend(feeds);
        }
        Case { cols, lines, ops }
    })
}

fn c03_decode() -> DecodeFn {
    Arc::new(|s: &mut Src| {
        let kind = s.weighted(&[6, 3, 3]) as u32;
        let mut ops = Vec::new();
        match kind {
            1 => {}
            2 => ops.push(Op::SelCharset("@".into())),
            _ => {
                if s.chance(80) {
                    ops.push(Op::SetUtf8(false));
                }
            }
        }
        let mut text = gen::stream(s, 10, true);
        text.push('X');
        let mut tmp = Vec::new();
        gen::feed_ops(s, &text, kind, 96, &mut tmp);
        ops.extend(tmp);
        Case { cols: 1, lines: 1, ops }
    })
}

fn c11_decode() -> DecodeFn {
    Arc::new(|s: &mut Src| {
        let mut ops = Vec::new();
        let rounds = 1 + s.below(3);
        for r in 0..rounds {
            if r > 0 || s.chance(40) {
                ops.push(Op::SelCharset(s.pick(&["@", "G", "8", "x", "@"]).to_string()));
            }
            let b = gen::utf8_soup(s, 8);
            for ch in gen::chunking(s, &b) {
                ops.push(Op::FeedBytes(ch));
            }
        }
        if s.chance(110) {
            gen::switch_bursts(s, &mut ops);
        }
        ops.push(Op::FeedBytes(b"x".to_vec()));
        Case { cols: 1, lines: 1, ops }
    })
}

/// large feeds (lengths and cuts around buffer sizes) for the byte-level properties
fn big_decode(flush: bool) -> DecodeFn {
    Arc::new(move |s: &mut Src| {
        let mut ops = Vec::new();
        if s.chance(40) {
            ops.push(Op::SelCharset("@".into()));
        }
        let b = gen::big_bytes(s, 6);
        for ch in gen::big_chunking(s, &b) {
            ops.push(Op::FeedBytes(ch));
        }
        if flush {
            ops.push(Op::FeedBytes(b"x".to_vec()));
        }
        Case { cols: 20, lines: 4, ops }
    })
}

/// C19: one OSC 0/1/2 string whose payload is as long as the usual read buffers (and a little
/// more or less), fed through the ByteParser in buffer-sized reads
fn big_osc_decode() -> DecodeFn {
    Arc::new(|s: &mut Src| {
        let mut ops = Vec::new();
        let eight = s.chance(60);
        if eight {
            ops.push(Op::SelCharset("@".into()));
        }
        let target = *s.pick(&[1000u32, 4090, 4096, 4100, 8192, 16384, 20000, 65536]) as usize + s.below(4) as usize;
        let mut b: Vec<u8> = Vec::with_capacity(target + 32);
        b.extend_from_slice(s.pick::<&[u8]>(&[b"", b"ab", b"\r\n"]));
        if eight {
            b.extend_from_slice(s.pick::<&[u8]>(&[b"\x1b]", b"\x9d"]));
        } else {
            b.extend_from_slice(s.pick::<&[u8]>(&[b"\x1b]", b"\xc2\x9d"]));
        }
        b.extend_from_slice(s.pick::<&[u8]>(&[b"0;", b"1;", b"2;", b"2;;", b"0;p", b"2;pq", b"2;pqr"]));
        let filler: &[u8] = if eight {
            s.pick::<&[u8]>(&[b"a", b"ab;c\\ ", b"\xe9", b"x\xe9\xff"])
        } else {
            s.pick::<&[u8]>(&[b"a", b"\xc3\xa9", b"\xe4\xb8\xad", b"x\xf0\x9f\x98\x80", b"ab;c\\ ", b"\xe2\x82\xac]"])
        };
        while b.len() < target {
            b.extend_from_slice(filler);
        }
        if eight {
            b.extend_from_slice(s.pick::<&[u8]>(&[b"\x07", b"\x1b\\", b"\x9c"]));
        } else {
            b.extend_from_slice(s.pick::<&[u8]>(&[b"\x07", b"\x1b\\", b"\xc2\x9c"]));
        }
        b.extend_from_slice(b"Z");
        for ch in gen::big_chunking(s, &b) {
            ops.push(Op::FeedBytes(ch));
        }
        Case { cols: 20, lines: 4, ops }
    })
}

/// a whole state-reaching history rendered as escape sequences and cut into feed() calls
/// (operations without a sequence - resize, display - stay API calls between the feeds)
fn rendered_history_decode() -> DecodeFn {
    let mut p = profile_for("C04");
    p.via_parser = 256;
    p.chunk = 150;
    p.max_ops = 30;
    p.w.edit = 10;
    p.w.scroll = 10;
    p.w.erase = 6;
    p.w.save = 4;
    p.w.resize = 2;
    p.w.display = 0;
    p.w.misc = 0;
    p.fill = 140;
    hist(p)
}

fn c01_decode_stream() -> DecodeFn {
    Arc::new(|s: &mut Src| {
        let (cols, lines) = gen::geometry(s, GEOMS_ALL);
        let kind = s.weighted(&[4, 5, 3]) as u32;
        let mut ops = Vec::new();
        if kind == 2 {
            ops.push(Op::SelCharset("@".into()));
        }
        let rounds = 1 + s.below(4);
        for _ in 0..rounds {
            let text = gen::stream(s, 8, false);
            if kind == 0 {
                gen::feed_ops(s, &text, 0, 128, &mut ops);
            } else {
                let mut b = gen::encode(&text, kind == 2);
                if s.chance(90) {
                    let extra = gen::utf8_soup(s, 4);
                    let at = s.below(b.len() as u32 + 1) as usize;
                    b.splice(at..at, extra);
                }
                for ch in gen::chunking(s, &b) {
                    ops.push(Op::FeedBytes(ch));
                }
                if s.chance(30) {
                    ops.push(Op::SelCharset(s.pick(&["@", "G", "8", "q"]).to_string()));
                }
            }
            if s.chance(60) {
                ops.push(Op::Display);
            }
            if s.chance(30) {
                ops.push(Op::Resize(Some(s.range(1, lines + 2)), Some(s.range(1, cols + 2))));
            }
        }
        Case { cols, lines, ops }
    })
}

fn c01_decode_api() -> DecodeFn {
    let mut p = Profile::base();
    p.geoms = GEOMS_ALL;
    p.via_parser = 40;
    p.max_ops = 30;
    p.w = weights(|w| {
        w.raw = 6;
        w.resize = 6;
        w.display = 4;
    });
    hist(p)
}

pub fn spec(id: &str) -> Option<Spec> {
    Some(match id {
        "C01" => Spec {
            id: "C01",
            rule: "generated byte/char streams (stream grammar incl. garbage, invalid and split UTF-8, any chunking, both parser modes, display() and resize interleaved) and generated API histories (arguments absent or 0..=9999) on geometries 1x1..140x40; every call must return, then the probe BEL BEL CAN ESC c Z must put Z in the top-left cell. Non-trivial = the case contains a control sequence, a byte >= 0x80, a zero/9999/absent argument, a mode change, a display() or a resize; distinct by hash of the case",
            assumptions: vec![
                "hang detection is by CPU time (RLIMIT_CPU) on a child process; a loop that ends after more than the limit is indistinguishable from a hang",
                "built with overflow-checks and debug-assertions on",
            ],
            subs: {
                let run: RunFn = Arc::new(|c: &Case| run_c01(c));
                let mut a = gen_sub("gen-stream", c01_decode_stream(), run.clone(), (160_000, 3_000_000), 700);
                let mut b = gen_sub("gen-api", c01_decode_api(), run.clone(), (160_000, 3_000_000), 700);
                // replays (and crash attribution) run the case alone in a child process, so
                // that aborts, stack overflows, hangs and deadlocks are verdicts too
                let mut c = gen_sub("gen-big-feeds", big_decode(false), run.clone(), (320, 12_000), 200);
                let mut d = gen_sub("gen-rendered-histories", rendered_history_decode(), run.clone(), (60_000, 2_000_000), 700);
                a.replay = crate::runner::isolated(run.clone());
                b.replay = crate::runner::isolated(run.clone());
                c.replay = crate::runner::isolated(run.clone());
                d.replay = crate::runner::isolated(run.clone());
                let mut v = vec![a, b, c, d];
                v.extend(exh::c01_subs(run));
                v
            },
        },
        "C02" => Spec {
            id: "C02",
            rule: "generated streams (stream grammar incl. garbage and invalid UTF-8) x chunkings (whole, 2-way, unit-at-a-time, random k-way, with empty chunks) for Parser, ByteParser UTF-8 and 8-bit; oracle: full snapshot and listener events after chunked feeding == after one feed of the concatenation (two runs of the implementation). Non-trivial = at least one cut falls inside a multi-byte character or inside a control sequence (decided by the reference recogniser); distinct by hash of (stream, chunking)",
            assumptions: vec!["model-free: compares the implementation with itself"],
            subs: {
                let run: RunFn = Arc::new(|c: &Case| run_c02(c));
                let mut v = vec![
                    gen_sub("gen-chunking", c02_decode(), run.clone(), (120_000, 4_000_000), 700),
                    gen_sub("gen-big-feeds", big_decode(false), run.clone(), (640, 24_000), 200),
                    gen_sub("gen-rendered-histories", rendered_history_decode(), run.clone(), (60_000, 2_000_000), 700),
                ];
                v.extend(exh::c02_subs(run));
                v
            },
        },
        "C03" => Spec {
            id: "C03",
            rule: "strings over the grammar's character classes: exhaustive enumeration up to a bounded length with ground-state pruning, plus generated well-formed streams (several sequences back to back, text in between, digit runs up to 40 digits) for Parser (UTF-8 and 8-bit flag) and ByteParser, each followed by X; oracle: ordered listener events of the real parser == independently written explicit-state recogniser (text merged, CAN/SUB stripped). Non-trivial = the string leaves the ground state; distinct by hash",
            assumptions: vec![
                "OSC strings whose first character is R, P, p, a terminator or ESC are excluded by construction (the statement's grammar and pyte disagree)",
                "only the shipping cfg(not(test)) copy of the recogniser can be executed from outside the crate",
            ],
            subs: {
                let run: RunFn = Arc::new(|c: &Case| run_c03(c));
                let mut v = vec![gen_sub("gen-wellformed", c03_decode(), run.clone(), (150_000, 5_000_000), 600)];
                v.extend(exh::c03_subs(run));
                v
            },
        },
        "C04" => stepper_spec(
            "C04",
            "stepwise: every draw() (API and parser-delivered) from a reached state is compared with the reference model applied to the abstract pre-state. Non-trivial = the step wrapped, hit the edge with autowrap off, ran in insert mode, used a non-identity charset, or drew a wide / combining / zero-width / unprintable character; distinct by hash of (abstract pre-state, op)",
            (60_000, 2_500_000),
            exh::c04_subs(),
        ),
        "C05" => stepper_spec(
            "C05",
            "exhaustive per geometry: recipe-reached states (every region, DECOM, every cursor cell incl. pending-wrap) x every movement op x every parameter in {absent,0..size+2,9999} through the API and the parser, plus generated histories on larger geometries; oracle: closed forms. Non-trivial = margins or DECOM active, absent/zero parameter, pending-wrap start, or the result lies on an edge; distinct by hash of (pre-state, op)",
            (40_000, 1_500_000),
            exh::c05_subs(),
        ),
        "C06" => stepper_spec(
            "C06",
            "marker grids (full and sparse) x every region x every cursor row x IND/LF/RI/IL n/DL n/DECSTBM with n in {absent,0..lines+1,9999}: exhaustive on small geometries plus generated histories; oracle: reference model on the dense grid + reveal probe. Non-trivial = a row moved or a region was set; distinct by hash of (pre-state, op)",
            (50_000, 2_000_000),
            exh::c06_subs(),
        ),
        "C07" => stepper_spec(
            "C07",
            "marker grids x cursor at every cell incl. pending-wrap x margins/DECOM x three renditions x ED/EL selectors {absent,0..5,9999} and ECH counts {absent,0..columns+1,9999}: exhaustive on small geometries plus generated histories; oracle: expected cell set + frame + reveal probe. Non-trivial = a cell changed or the cursor was at the pending-wrap column; distinct by hash of (pre-state, op)",
            (50_000, 2_000_000),
            exh::c07_subs(),
        ),
        "C08" => stepper_spec(
            "C08",
            "every single SGR code 0..=9999 from six attribute states, all pairs of documented codes, all 38/48;5;n with n in 0..=300, 38/48;2;r;g;b with boundary components and every truncation, each followed by drawing a character; plus generated lists; through the API and CSI..m; oracle: independent fold with its own palette. Non-trivial = the rendition changed or the list contains an extended-colour form; distinct by hash of (pre-state, op)",
            (40_000, 1_500_000),
            exh::c08_subs(),
        ),
        "C09" => stepper_spec(
            "C09",
            "generated mixed histories (byte input, API calls with arguments absent or 0..=9999, resizes in both directions, DECCOLM) on geometries 1x1..140x40; the invariant predicate runs after every step (also display().len()). Non-trivial = the step changed cells, cursor or modes; distinct by hash of (pre-state, op)",
            (60_000, 2_500_000),
            vec![],
        ),
        "C10" => stepper_spec(
            "C10",
            "generated histories with display() interposed at generated positions; at every display(): output == rendering recomputed from the grid and the snapshot is unchanged; in lock-step a second run of the same history without the display() calls must be in the same state after every operation. Non-trivial = any step that changes cells, cursor or modes; distinct by hash of (pre-state, op)",
            (60_000, 2_500_000),
            vec![],
        ),
        "C11" => Spec {
            id: "C11",
            rule: "byte strings built from every well-formed 1-4 byte form at its boundaries, overlongs, surrogates, > U+10FFFF, stray continuation bytes, truncated sequences, BOM, ASCII and escape bytes x chunkings x mode switches, plus every 2-way split of short strings; oracle: listener events of ByteParser fed the chunks == events of Parser fed the standard library's streaming lossy decoding of the same bytes (1:1 in 8-bit mode). Non-trivial = contains an ill-formed subsequence, a mode switch, or a sequence held across a feed boundary; distinct by hash",
            assumptions: vec!["the reference decoder is std::str::from_utf8 driven (maximal-subpart U+FFFD); one leading BOM is ignored on both sides"],
            subs: {
                let run: RunFn = Arc::new(|c: &Case| run_c11(c));
                let mut v = vec![
                    gen_sub("gen-bytes", c11_decode(), run.clone(), (150_000, 5_000_000), 500),
                    gen_sub("gen-big-feeds", big_decode(true), run.clone(), (800, 30_000), 200),
                ];
                v.extend(exh::c11_subs(run));
                v
            },
        },
        "C12" => stepper_spec(
            "C12",
            "every mode number 0..=9999 x {private, ANSI} x {SM, RM} from eight representative reached states (exhaustive), plus generated histories with mode lists of length 1-3, repeated set/reset, DECSC/DECRC, resize and drawing; oracle: reference model with the documented n*32 encoding. Non-trivial = any SM/RM step; distinct by hash of (pre-state, op)",
            (40_000, 1_500_000),
            exh::c12_subs(),
        ),
        "C13" => stepper_spec(
            "C13",
            "all sequences of length <= 4 over {ICH n, DCH n, insert-mode draw, EL 0/1/2, CHA, pending-wrap} on one row of 4 columns (written and never-written rows), every step compared, plus generated histories; oracle: list splice on the dense row + reveal probe. Non-trivial = cells changed or the cursor was at the pending-wrap column; distinct by hash of (pre-state, op)",
            (50_000, 2_000_000),
            exh::c13_subs(),
        ),
        "C14" => stepper_spec(
            "C14",
            "generated histories biased to save^k . ops (movement, SGR, SO/SI, designation, modes, margins, resize) . restore^m; the saved stack is part of the snapshot, so both the push (full copy) and the pop (LIFO, clamping, one-way DECOM/DECAWM) are compared with the model. Non-trivial = any DECSC/DECRC step; distinct by hash of (pre-state, op)",
            (60_000, 2_500_000),
            exh::c14_subs(),
        ),
        "C15" => stepper_spec(
            "C15",
            "generated history h, then RIS (reset() or ESC c), then continuation t: right after RIS and after every step of t the snapshot (minus the saved-cursor stack) must equal that of Screen::new(current size) driven by the same t (until a DECRC). Non-trivial = RIS steps; distinct by hash of (pre-state, op)",
            (60_000, 2_500_000),
            vec![],
        ),
        "C16" => stepper_spec(
            "C16",
            "reached states (marker fill, region, DECOM, pending-wrap, wide characters) x target sizes 1..=max+2 in both dimensions, resize sequences, DECCOLM; oracle: crop/extend model (cursor as predicate, tab stops not compared), same-size = complete no-op, reveal probe after every step. Non-trivial = a resize that changes the size; distinct by hash of (pre-state, op)",
            (50_000, 2_000_000),
            exh::c16_subs(),
        ),
        "C17" => stepper_spec(
            "C17",
            "every step of generated histories with dirty cleared before the step: changed rows must be in dirty, dirty within [0, lines), and screen-wide changes (size change, reset, DECALN, DECSCNM switch, scroll) must mark every row. Non-trivial = the step changed some cell or the size; distinct by hash of (pre-state, op)",
            (60_000, 2_500_000),
            vec![],
        ),
        "C18" => stepper_spec(
            "C18",
            "widths 1..=140 with default stops x every cursor column, every stop subset for small widths reached by HTS/TBC x every cursor column incl. pending-wrap x {HT, HTS, TBC sel}, width changes between setting and using a stop; oracle: closed form. Non-trivial = any HT/HTS/TBC step; distinct by hash of (pre-state, op)",
            (40_000, 1_500_000),
            exh::c18_subs(),
        ),
        "C19" => stepper_spec(
            "C19",
            "OSC strings from the payload grammar (both introducers, codes 0-9, letters and multi-digit, payload with ; \\ ] non-ASCII, ESC x pairs, C0 controls, three terminators) with text before and after, arbitrarily chunked, through Parser and ByteParser, plus payloads of 1-64 KiB fed in buffer-sized reads; oracle: reference recogniser gives title/icon = payload and the model says nothing else changes. Non-trivial = set_title/set_icon_name steps; distinct by hash of (pre-state, op)",
            (60_000, 2_500_000),
            {
                let mut v = exh::c19_subs();
                v.push(gen_sub("gen-big-osc", big_osc_decode(), stepper_run(cfg_for("C19")), (480, 16_000), 200));
                v
            },
        ),
        "C20" => stepper_spec(
            "C20",
            "256 code points x {B,0,U,V} x {G0,G1} x {SI,SO} through the API and through the parser in 8-bit mode (exhaustive), code points > 255, unsupported designators, UTF-8 mode; oracle: independently written tables. Non-trivial = a draw under a non-Latin-1 set or a shift/designation step; distinct by hash of (pre-state, op)",
            (40_000, 1_500_000),
            exh::c20_subs(),
        ),
        _ => return None,
    })
}

pub const ALL: &[&str] = &[
    "C01", "C02", "C03", "C04", "C05", "C06", "C07", "C08", "C09", "C10", "C11", "C12", "C13",
    "C14", "C15", "C16", "C17", "C18", "C19", "C20",
];
